// Package kz wraps the stream API of the code under test for the drivers.
package kz

import (
	"errors"
	"io"
	"sort"
	"strings"
	"sync"

	kanzi "github.com/flanglet/kanzi-go/v2"
	"github.com/flanglet/kanzi-go/v2/bitstream"

	kio "github.com/flanglet/kanzi-go/v2/io"
	"kzverif/fio"
)

// Cfg is a compression configuration.
type Cfg struct {
	Transform  string `json:"transform"`
	Entropy    string `json:"entropy"`
	Block      uint   `json:"block"`
	Jobs       uint   `json:"jobs"`
	Ck         uint   `json:"ck"`
	Hint       int64  `json:"hint"` // <0: key absent, 0: unknown, >0 size hint
	Headerless bool   `json:"headerless"`
	SkipBlocks bool   `json:"skipBlocks"`
	// Verbosity > 0: the context carries "verbosity" and a listener is registered (what the command line tool does with -v)
	Verbosity uint       `json:"verbosity,omitempty"`
	Events    *Collector `json:"-"`
	// API selects the public entry points: "" = NewWriterWithCtx / NewReaderWithCtx, "debug" = NewWriterWithCtx2 / NewReaderWithCtx2 over
	// Debug bit streams that wrap the default ones, "positional" = NewReader / NewHeaderlessReader (reading side only)
	API string `json:"api,omitempty"`
}

// DebugOut wraps a default output bit stream over sink into a DebugOutputBitStream (log discarded)
func DebugOut(sink io.WriteCloser) (kanzi.OutputBitStream, error) {
	obs, err := bitstream.NewDefaultOutputBitStream(sink, 65536)
	if err != nil {
		return nil, err
	}
	return bitstream.NewDebugOutputBitStream(obs, io.Discard)
}

// Collector is a listener that keeps the BLOCK_INFO messages (block id, position in the bit stream, skip flags)
type Collector struct {
	mu   sync.Mutex
	Msgs []string
}

func (c *Collector) ProcessEvent(e *kanzi.Event) {
	if e.Type() != kanzi.EVT_BLOCK_INFO {
		return
	}
	c.mu.Lock()
	c.Msgs = append(c.Msgs, e.String())
	c.mu.Unlock()
}

// Sorted returns the messages in a canonical order
func (c *Collector) Sorted() []string {
	c.mu.Lock()
	defer c.mu.Unlock()
	out := append([]string(nil), c.Msgs...)
	sort.Strings(out)
	return out
}

// Ctx builds the writer context for a configuration.
func (c Cfg) Ctx() map[string]any {
	ctx := map[string]any{"transform": c.Transform, "entropy": c.Entropy, "blockSize": c.Block,
		"jobs": c.Jobs, "checksum": c.Ck, "headerless": c.Headerless}
	if c.Hint >= 0 {
		ctx["fileSize"] = c.Hint
	}
	if c.SkipBlocks {
		ctx["skipBlocks"] = true
	}
	if c.Verbosity > 0 {
		ctx["verbosity"] = c.Verbosity
	}
	return ctx
}

// Class maps an error to the classes used by the specifications.
func Class(err error) string {
	if err == nil {
		return "none"
	}
	if err == io.EOF {
		return "eof"
	}
	var ioe *kio.IOError
	if errors.As(err, &ioe) {
		if strings.Contains(ioe.Message(), "Stream closed") {
			return "closed"
		}
	}
	return "err"
}

// WriteAll writes data to w in pieces given by the cyclic list parts (nil = one Write).
func WriteAll(w io.Writer, data []byte, parts []int) (int, error) {
	if len(parts) == 0 {
		return w.Write(data)
	}
	off, i := 0, 0
	for off < len(data) {
		n := parts[i%len(parts)]
		i++
		if n > len(data)-off {
			n = len(data) - off
		}
		m, err := w.Write(data[off : off+n])
		off += m
		if err != nil {
			return off, err
		}
		if m != n {
			return off, io.ErrShortWrite
		}
	}
	return off, nil
}

// Compress runs data through a Writer and returns the produced stream.
func Compress(data []byte, c Cfg, parts []int, hook kio.VerifHookFunc) ([]byte, error) {
	sink := &fio.Sink{}
	ctx := c.Ctx()
	if hook != nil {
		ctx["verifHook"] = hook
	}
	w, err := kio.NewWriterWithCtx(sink, ctx)
	if err != nil {
		return nil, err
	}
	if c.Verbosity > 0 && c.Events != nil {
		w.AddListener(c.Events)
	}
	if _, err := WriteAll(w, data, parts); err != nil {
		w.Close()
		return sink.Data, err
	}
	if err := w.Close(); err != nil {
		return sink.Data, err
	}
	return sink.Data, nil
}

// CompressRetry writes the stream through a sink whose last Write call of the fault-free run fails once (nothing accepted); Close
// is then called again. It returns what the sink received when the second Close reports success, nil otherwise.
func CompressRetry(data []byte, c Cfg, parts []int) []byte {
	probe := &fio.Sink{}
	w, err := kio.NewWriterWithCtx(probe, c.Ctx())
	if err != nil {
		return nil
	}
	if _, err := WriteAll(w, data, parts); err != nil || w.Close() != nil {
		return nil
	}
	last := 0
	for _, cl := range probe.Calls {
		if cl.Op == "write" {
			last = cl.K
		}
	}
	if last == 0 {
		return nil
	}
	sink := &fio.Sink{Fail: map[int]bool{last: true}}
	w, err = kio.NewWriterWithCtx(sink, c.Ctx())
	if err != nil {
		return nil
	}
	if _, err := WriteAll(w, data, parts); err != nil {
		w.Close()
		return nil
	}
	if w.Close() == nil {
		return nil // the failure did not reach the caller through Close: not the scenario
	}
	if w.Close() != nil {
		return nil
	}
	return sink.Data
}

// RCfg is a decompression configuration.
type RCfg struct {
	Jobs uint `json:"jobs"`
	From int  `json:"from"`
	To   int  `json:"to"`
	// headerless parameters
	W *Cfg `json:"w,omitempty"`
	// OrigSize for headerless streams (0 unknown)
	OrigSize  int64      `json:"origSize"`
	Verbosity uint       `json:"verbosity,omitempty"`
	Events    *Collector `json:"-"`
}

func (c RCfg) Ctx() map[string]any {
	ctx := map[string]any{"jobs": c.Jobs}
	if c.Verbosity > 0 {
		ctx["verbosity"] = c.Verbosity
	}
	if c.From > 0 {
		ctx["from"] = c.From
	}
	if c.To > 0 {
		ctx["to"] = c.To
	}
	if c.W != nil && c.W.Headerless {
		ctx["headerless"] = true
		ctx["transform"] = c.W.Transform
		ctx["entropy"] = c.W.Entropy
		ctx["blockSize"] = c.W.Block
		ctx["checksum"] = c.W.Ck
		ctx["outputSize"] = c.OrigSize
		ctx["bsVersion"] = uint(6)
	}
	return ctx
}

// ReadAll drains r using buffers of the cyclic sizes in lens (nil = 64 KiB), up to limit bytes.
// It returns the data, the first non-nil error (io.EOF for a clean end) and the number of calls.
func ReadAll(r io.Reader, lens []int, limit int) ([]byte, error, int) {
	var out []byte
	calls := 0
	i := 0
	zero := 0
	for {
		n := 65536
		if len(lens) > 0 {
			n = lens[i%len(lens)]
			i++
		}
		buf := make([]byte, n)
		m, err := r.Read(buf)
		calls++
		out = append(out, buf[:m]...)
		if err != nil {
			return out, err, calls
		}
		if m == 0 {
			zero++
			if zero > 1000 && n > 0 {
				return out, errors.New("reader makes no progress"), calls
			}
		} else {
			zero = 0
		}
		if limit > 0 && len(out) > limit {
			return out, errors.New("reader delivers more than limit"), calls
		}
	}
}

// Decompress decodes a stream held in memory.
func Decompress(stream []byte, c RCfg, chunks []int, lens []int, hook kio.VerifHookFunc, limit int) ([]byte, error) {
	src := &fio.Source{Data: stream, Chunks: chunks}
	ctx := c.Ctx()
	if hook != nil {
		ctx["verifHook"] = hook
	}
	var r *kio.Reader
	var err error
	api := ""
	if c.W != nil && hook == nil {
		api = c.W.API
	}
	switch {
	case api == "debug":
		var ibs kanzi.InputBitStream
		if ibs, err = bitstream.NewDefaultInputBitStream(src, 65536); err == nil {
			if ibs, err = bitstream.NewDebugInputBitStream(ibs, io.Discard); err == nil {
				r, err = kio.NewReaderWithCtx2(ibs, ctx)
			}
		}
	case api == "positional" && c.From == 0 && c.To == 0 && c.Verbosity == 0:
		if c.W.Headerless {
			r, err = kio.NewHeaderlessReader(src, c.Jobs, c.W.Transform, c.W.Entropy, c.W.Block, c.W.Ck, c.OrigSize, 6)
		} else {
			r, err = kio.NewReader(src, c.Jobs)
		}
	default:
		r, err = kio.NewReaderWithCtx(src, ctx)
	}
	if err != nil {
		return nil, err
	}
	if c.Verbosity > 0 && c.Events != nil {
		r.AddListener(c.Events)
	}
	out, err, _ := ReadAll(r, lens, limit)
	cerr := r.Close()
	if err == io.EOF {
		err = nil
		if cerr != nil {
			err = cerr
		}
	}
	return out, err
}
