// Package xxref is an independent implementation of the XXH32 and XXH64 hash functions, written from the published
// specification of the algorithm (Yann Collet, xxHash). It is the reference for the block checksums of the container.
package xxref

import (
	"encoding/binary"
	"math/bits"
)

const (
	p32_1 = 2654435761
	p32_2 = 2246822519
	p32_3 = 3266489917
	p32_4 = 668265263
	p32_5 = 374761393
)

func round32(acc, in uint32) uint32 {
	acc += in * p32_2
	return bits.RotateLeft32(acc, 13) * p32_1
}

// XXH32 of data with the given seed.
func XXH32(data []byte, seed uint32) uint32 {
	n := len(data)
	p := 0
	var h uint32
	if n >= 16 {
		v1, v2, v3, v4 := seed+p32_1+p32_2, seed+p32_2, seed, seed-p32_1
		for ; p+16 <= n; p += 16 {
			v1 = round32(v1, binary.LittleEndian.Uint32(data[p:]))
			v2 = round32(v2, binary.LittleEndian.Uint32(data[p+4:]))
			v3 = round32(v3, binary.LittleEndian.Uint32(data[p+8:]))
			v4 = round32(v4, binary.LittleEndian.Uint32(data[p+12:]))
		}
		h = bits.RotateLeft32(v1, 1) + bits.RotateLeft32(v2, 7) + bits.RotateLeft32(v3, 12) + bits.RotateLeft32(v4, 18)
	} else {
		h = seed + p32_5
	}
	h += uint32(n)
	for ; p+4 <= n; p += 4 {
		h += binary.LittleEndian.Uint32(data[p:]) * p32_3
		h = bits.RotateLeft32(h, 17) * p32_4
	}
	for ; p < n; p++ {
		h += uint32(data[p]) * p32_5
		h = bits.RotateLeft32(h, 11) * p32_1
	}
	h ^= h >> 15
	h *= p32_2
	h ^= h >> 13
	h *= p32_3
	h ^= h >> 16
	return h
}

const (
	p64_1 = 11400714785074694791
	p64_2 = 14029467366897019727
	p64_3 = 1609587929392839161
	p64_4 = 9650029242287828579
	p64_5 = 2870177450012600261
)

func round64(acc, in uint64) uint64 {
	acc += in * p64_2
	return bits.RotateLeft64(acc, 31) * p64_1
}

func merge64(acc, val uint64) uint64 {
	acc ^= round64(0, val)
	return acc*p64_1 + p64_4
}

// KanziXXH64 is the 64-bit block checksum of bitstream format 6. It is NOT the standard XXH64: the pinned reference
// (commit 76efab5, v2/hash/XXHash64.go) combines the four accumulators with the shift pairs (1,31) (7,25) (12,20) (18,14)
// - i.e. not 64-bit rotations - and ADDS the tail bytes instead of XOR-ing them. Streams in the field carry these values,
// so this is the format; the function below is written from that description, not copied.
func KanziXXH64(data []byte, seed uint64) uint64 {
	n := len(data)
	p := 0
	var h uint64
	if n >= 32 {
		v1, v2, v3, v4 := seed+p64_1+p64_2, seed+p64_2, seed, seed-p64_1
		for ; p+32 <= n; p += 32 {
			v1 = round64(v1, binary.LittleEndian.Uint64(data[p:]))
			v2 = round64(v2, binary.LittleEndian.Uint64(data[p+8:]))
			v3 = round64(v3, binary.LittleEndian.Uint64(data[p+16:]))
			v4 = round64(v4, binary.LittleEndian.Uint64(data[p+24:]))
		}
		h = (v1<<1 | v1>>31) + (v2<<7 | v2>>25) + (v3<<12 | v3>>20) + (v4<<18 | v4>>14)
		h = merge64(h, v1)
		h = merge64(h, v2)
		h = merge64(h, v3)
		h = merge64(h, v4)
	} else {
		h = seed + p64_5
	}
	h += uint64(n)
	for ; p+8 <= n; p += 8 {
		h ^= round64(0, binary.LittleEndian.Uint64(data[p:]))
		h = bits.RotateLeft64(h, 27)*p64_1 + p64_4
	}
	for ; p+4 <= n; p += 4 {
		h ^= uint64(binary.LittleEndian.Uint32(data[p:])) * p64_1
		h = bits.RotateLeft64(h, 23)*p64_2 + p64_3
	}
	for ; p < n; p++ {
		h += uint64(data[p]) * p64_5
		h = bits.RotateLeft64(h, 11) * p64_1
	}
	h ^= h >> 33
	h *= p64_2
	h ^= h >> 29
	h *= p64_3
	h ^= h >> 32
	return h
}

// XXH64 of data with the given seed (the standard function, kept for comparison).
func XXH64(data []byte, seed uint64) uint64 {
	n := len(data)
	p := 0
	var h uint64
	if n >= 32 {
		v1, v2, v3, v4 := seed+p64_1+p64_2, seed+p64_2, seed, seed-p64_1
		for ; p+32 <= n; p += 32 {
			v1 = round64(v1, binary.LittleEndian.Uint64(data[p:]))
			v2 = round64(v2, binary.LittleEndian.Uint64(data[p+8:]))
			v3 = round64(v3, binary.LittleEndian.Uint64(data[p+16:]))
			v4 = round64(v4, binary.LittleEndian.Uint64(data[p+24:]))
		}
		h = bits.RotateLeft64(v1, 1) + bits.RotateLeft64(v2, 7) + bits.RotateLeft64(v3, 12) + bits.RotateLeft64(v4, 18)
		h = merge64(h, v1)
		h = merge64(h, v2)
		h = merge64(h, v3)
		h = merge64(h, v4)
	} else {
		h = seed + p64_5
	}
	h += uint64(n)
	for ; p+8 <= n; p += 8 {
		h ^= round64(0, binary.LittleEndian.Uint64(data[p:]))
		h = bits.RotateLeft64(h, 27)*p64_1 + p64_4
	}
	for ; p+4 <= n; p += 4 {
		h ^= uint64(binary.LittleEndian.Uint32(data[p:])) * p64_1
		h = bits.RotateLeft64(h, 23)*p64_2 + p64_3
	}
	for ; p < n; p++ {
		h ^= uint64(data[p]) * p64_5
		h = bits.RotateLeft64(h, 11) * p64_1
	}
	h ^= h >> 33
	h *= p64_2
	h ^= h >> 29
	h *= p64_3
	h ^= h >> 32
	return h
}
