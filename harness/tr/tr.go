// Package tr writes ndjson traces consumed by the TLA+ trace specifications.
package tr

import (
	"bufio"
	"crypto/sha256"
	"encoding/hex"
	"encoding/json"
	"os"
	"sync"
)

// Ev is one trace event: a flat JSON object.
type Ev map[string]any

// W is a concurrent-safe ndjson writer.
type W struct {
	mu   sync.Mutex
	f    *os.File
	bw   *bufio.Writer
	N    int
	Runs int
}

// Open creates (truncates) the trace file.
func Open(path string) (*W, error) {
	f, err := os.Create(path)
	if err != nil {
		return nil, err
	}
	return &W{f: f, bw: bufio.NewWriterSize(f, 1<<20)}, nil
}

// Emit appends one event; the line number (1-based) is returned.
func (w *W) Emit(e Ev) int {
	w.mu.Lock()
	defer w.mu.Unlock()
	b, err := json.Marshal(e)
	if err != nil {
		panic(err)
	}
	w.bw.Write(b)
	w.bw.WriteByte('\n')
	w.N++
	return w.N
}

// EmitAll appends several events atomically.
func (w *W) EmitAll(es []Ev) {
	w.mu.Lock()
	defer w.mu.Unlock()
	for _, e := range es {
		b, err := json.Marshal(e)
		if err != nil {
			panic(err)
		}
		w.bw.Write(b)
		w.bw.WriteByte('\n')
		w.N++
	}
}

// Close flushes and closes the file.
func (w *W) Close() error {
	w.mu.Lock()
	defer w.mu.Unlock()
	w.bw.Flush()
	return w.f.Close()
}

// Dig returns a short hex digest of a byte slice (TLC integers are 32 bit: digests are strings).
func Dig(b []byte) string {
	h := sha256.Sum256(b)
	return hex.EncodeToString(h[:8])
}
