// Package fio provides in-memory sinks and sources with chunking and fault injection.
package fio

import (
	"errors"
	"io"
)

// ErrInjected is the error returned by injected faults.
var ErrInjected = errors.New("injected I/O fault")

// Call describes one call made on a sink or source.
type Call struct {
	Op  string // "write", "read", "close"
	K   int    // 1-based index among all calls
	N   int    // bytes requested
	Got int    // bytes transferred
	OK  bool
	Inj bool // the call failed with an injected fault
	Pos int  // source position after the call
}

// Sink is an io.WriteCloser that records what it receives and fails the calls listed in Fail.
type Sink struct {
	Data     []byte
	Calls    []Call
	Fail     map[int]bool // call indices (1-based, counting Write and Close) that fail
	FailFrom int          // if >0, every call with index >= FailFrom fails
	Partial  bool         // a failing Write accepts half of the bytes before failing
	Closed   bool
	MaxChunk int // if >0, accept at most MaxChunk bytes per Write (short write with error io.ErrShortWrite)
	OnCall   func(c Call)
}

func (s *Sink) fails(k int) bool {
	return s.Fail[k] || (s.FailFrom > 0 && k >= s.FailFrom)
}

func (s *Sink) Write(p []byte) (int, error) {
	k := len(s.Calls) + 1
	c := Call{Op: "write", K: k, N: len(p)}
	var err error

	if s.fails(k) {
		if s.Partial {
			c.Got = len(p) / 2
			s.Data = append(s.Data, p[:c.Got]...)
		}
		err = ErrInjected
	} else {
		c.Got = len(p)
		c.OK = true
		s.Data = append(s.Data, p...)
	}

	s.Calls = append(s.Calls, c)
	if s.OnCall != nil {
		s.OnCall(c)
	}
	return c.Got, err
}

func (s *Sink) Close() error {
	k := len(s.Calls) + 1
	c := Call{Op: "close", K: k}
	var err error

	if s.fails(k) {
		err = ErrInjected
	} else {
		c.OK = true
		s.Closed = true
	}

	s.Calls = append(s.Calls, c)
	if s.OnCall != nil {
		s.OnCall(c)
	}
	return err
}

// Source is an io.ReadCloser over a byte slice that delivers data in chunks and can fail.
type Source struct {
	Data   []byte
	Pos    int
	Chunks []int // cyclic list of chunk sizes; empty = as much as requested
	ci     int
	Calls  []Call
	Fail   map[int]bool // 1-based call indices that fail (read or close)
	// FailAtEnd: instead of io.EOF the source reports ErrInjected once all bytes are delivered
	FailAtEnd bool
	// ErrWithData: the final chunk is returned together with the error (n>0, err!=nil)
	ErrWithData bool
	Closed      bool
	// DataErr: read calls (1-based) that deliver their data TOGETHER with ErrInjected, once; later calls work normally
	DataErr   map[int]bool
	ZeroReads int // number of (0,nil) reads inserted before each data read (legal for io.Reader)
	zr        int
}

func (s *Source) Read(p []byte) (int, error) {
	k := len(s.Calls) + 1
	c := Call{Op: "read", K: k, N: len(p)}

	c.Pos = s.Pos
	if s.Fail[k] {
		c.Inj = true
		s.Calls = append(s.Calls, c)
		return 0, ErrInjected
	}

	if s.Pos >= len(s.Data) {
		if s.FailAtEnd {
			c.Inj = true
			s.Calls = append(s.Calls, c)
			return 0, ErrInjected
		}
		s.Calls = append(s.Calls, c)
		return 0, io.EOF
	}

	n := len(p)
	if len(s.Chunks) > 0 {
		ch := s.Chunks[s.ci%len(s.Chunks)]
		s.ci++
		if ch < n {
			n = ch
		}
	}
	if n > len(s.Data)-s.Pos {
		n = len(s.Data) - s.Pos
	}
	copy(p, s.Data[s.Pos:s.Pos+n])
	s.Pos += n
	c.Pos = s.Pos
	c.Got = n
	c.OK = true
	s.Calls = append(s.Calls, c)

	if s.DataErr[k] {
		s.Calls[len(s.Calls)-1].Inj = true
		return n, ErrInjected
	}
	if s.ErrWithData && s.Pos >= len(s.Data) {
		if s.FailAtEnd {
			s.Calls[len(s.Calls)-1].Inj = true
			return n, ErrInjected
		}
		return n, io.EOF
	}
	return n, nil
}

func (s *Source) Close() error {
	k := len(s.Calls) + 1
	c := Call{Op: "close", K: k}
	if s.Fail[k] {
		s.Calls = append(s.Calls, c)
		return ErrInjected
	}
	c.OK = true
	s.Closed = true
	s.Calls = append(s.Calls, c)
	return nil
}
