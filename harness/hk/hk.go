// Package hk records the verification hooks of v2/io (build tag verif), perturbs schedules,
// injects faults, and imposes model-chosen schedules through blocking gates.
package hk

import (
	"math/rand"
	"runtime"
	"sync"
	"time"

	kio "github.com/flanglet/kanzi-go/v2/io"
	"kzverif/tr"
)

// Names of hook points as used in traces.
var Names = map[int]string{
	kio.VH_E_START: "E_START", kio.VH_E_LOCAL: "E_LOCAL", kio.VH_E_WAIT: "E_WAIT", kio.VH_E_SEEN: "E_SEEN",
	kio.VH_E_EMIT0: "E_EMIT0", kio.VH_E_EMIT1: "E_EMIT1", kio.VH_E_FIN0: "E_FIN0", kio.VH_E_FIN1: "E_FIN1",
	kio.VH_W_JOIN: "W_JOIN", kio.VH_D_WAIT: "D_WAIT", kio.VH_D_SEEN: "D_SEEN", kio.VH_D_READ0: "D_READ0",
	kio.VH_D_READ1: "D_READ1", kio.VH_D_PUB: "D_PUB", kio.VH_D_SKIP: "D_SKIP", kio.VH_D_DEC: "D_DEC",
	kio.VH_D_FIN0: "D_FIN0", kio.VH_D_FIN1: "D_FIN1", kio.VH_R_JOIN: "R_JOIN", kio.VH_W_SPAWN: "W_SPAWN",
	kio.VH_R_SPAWN: "R_SPAWN",
}

// Ev is one recorded hook event.
type Ev struct {
	Seq int64
	Pt  int
	ID  int32
	A   int64
	B   int64
	Dig string
	N   int
}

// Rec records hook events. The zero value is not usable: call NewRec.
type Rec struct {
	mu      sync.Mutex
	evs     []Ev
	seq     int64
	Digest  map[int]bool // points whose buffer is digested
	rnd     *rand.Rand
	Perturb int // 0 = none, otherwise 1/Perturb chance of a yield or micro sleep at each hook
	Sched   *Sched
	// Inject is called (outside the lock, after a gate released the task) and may panic or mutate buf.
	Inject func(pt int, id int32, a, b int64, buf []byte)
}

func NewRec(seed int64) *Rec {
	return &Rec{rnd: rand.New(rand.NewSource(seed)), Digest: map[int]bool{
		kio.VH_E_START: true, kio.VH_E_LOCAL: true, kio.VH_D_FIN0: true}}
}

// Func returns the hook with the type expected in the stream context.
func (r *Rec) Func() kio.VerifHookFunc { return r.Hook }

func (r *Rec) Hook(pt int, id int32, a, b int64, buf []byte) {
	e := Ev{Pt: pt, ID: id, A: a, B: b, N: len(buf)}
	if buf != nil && r.Digest[pt] {
		e.Dig = tr.Dig(buf)
	}

	// The event is logged when the task ARRIVES at the point (before it may be held at a gate): the log order is
	// then the order in which the tasks really executed the code that precedes their hooks.
	r.mu.Lock()
	r.seq++
	e.Seq = r.seq
	r.evs = append(r.evs, e)
	var roll, dur int
	if r.Perturb > 0 {
		roll = r.rnd.Intn(r.Perturb * 3)
		dur = r.rnd.Intn(200)
	}
	r.mu.Unlock()

	if s := r.Sched; s != nil {
		s.arrive(id, pt, a)
	}

	if r.Inject != nil {
		r.Inject(pt, id, a, b, buf)
	}

	if r.Perturb > 0 {
		switch roll {
		case 0:
			runtime.Gosched()
		case 1:
			time.Sleep(time.Duration(dur) * time.Microsecond)
		case 2:
			for i := 0; i < 3; i++ {
				runtime.Gosched()
			}
		}
	}
}

// Events returns a copy of the events recorded so far.
func (r *Rec) Events() []Ev {
	r.mu.Lock()
	defer r.mu.Unlock()
	return append([]Ev(nil), r.evs...)
}

// Reset drops the recorded events.
func (r *Rec) Reset() {
	r.mu.Lock()
	r.evs = nil
	r.mu.Unlock()
}

// ---------------------------------------------------------------------------------------------
// Gate scheduler

type arrival struct {
	pt   int
	a    int64
	gate bool
}

type task struct {
	arrived chan arrival
	release chan struct{}
}

// Sched blocks tasks at gate points until the replayer releases them one step at a time.
type Sched struct {
	mu     sync.Mutex
	tasks  map[int32]*task
	Gates  map[int]bool
	Final  map[int]bool // points after which a task is finished (recorded, not gated)
	freeCh chan struct{}
	freed  bool
	// NoGate, when set and true for (point, a), makes this arrival transparent (neither gate nor final)
	NoGate func(pt int, a int64) bool
}

func NewSched(gates []int, final []int) *Sched {
	s := &Sched{tasks: map[int32]*task{}, Gates: map[int]bool{}, Final: map[int]bool{}, freeCh: make(chan struct{})}
	for _, g := range gates {
		s.Gates[g] = true
	}
	for _, g := range final {
		s.Final[g] = true
	}
	return s
}

func (s *Sched) get(id int32) *task {
	s.mu.Lock()
	defer s.mu.Unlock()
	t := s.tasks[id]
	if t == nil {
		t = &task{arrived: make(chan arrival, 64), release: make(chan struct{}, 1)}
		s.tasks[id] = t
	}
	return t
}

func (s *Sched) arrive(id int32, pt int, a int64) {
	gate := s.Gates[pt]
	if !gate && !s.Final[pt] {
		return
	}
	if s.NoGate != nil && s.NoGate(pt, a) {
		return
	}
	select {
	case <-s.freeCh:
		return
	default:
	}
	t := s.get(id)
	select {
	case t.arrived <- arrival{pt, a, gate}:
	case <-s.freeCh:
		return
	}
	if gate {
		select {
		case <-t.release:
		case <-s.freeCh:
		}
	}
}

// WaitAt waits until task id is blocked at a gate or finished. Returns the point (0 on timeout),
// the scalar a logged at that point and whether the task is finished.
func (s *Sched) WaitAt(id int32, timeout time.Duration) (pt int, a int64, done bool) {
	t := s.get(id)
	select {
	case ar := <-t.arrived:
		return ar.pt, ar.a, !ar.gate
	case <-time.After(timeout):
		return 0, 0, false
	}
}

// Release lets task id leave the gate it is blocked at.
func (s *Sched) Release(id int32) {
	t := s.get(id)
	select {
	case t.release <- struct{}{}:
	default:
	}
}

// Free opens all gates for good.
func (s *Sched) Free() {
	s.mu.Lock()
	if !s.freed {
		s.freed = true
		close(s.freeCh)
	}
	s.mu.Unlock()
}
