// Package kzfmt is an independent parser/forger for the kanzi bitstream container (format 6),
// written from specs/KzFormat.tla. It does not import the code under test.
package kzfmt

import (
	"errors"
	"fmt"
)

const Magic = 0x4B414E5A

// BitReader reads big-endian bit fields from a byte slice.
type BitReader struct {
	B   []byte
	Pos int // bit position
}

func (r *BitReader) Left() int { return len(r.B)*8 - r.Pos }

func (r *BitReader) Read(n int) (uint64, error) {
	if n > r.Left() {
		return 0, errors.New("short")
	}
	var v uint64
	for i := 0; i < n; i++ {
		p := r.Pos + i
		bit := (r.B[p>>3] >> (7 - uint(p&7))) & 1
		v = v<<1 | uint64(bit)
	}
	r.Pos += n
	return v, nil
}

// SetBits overwrites n bits at bit position pos with the low n bits of v.
func SetBits(b []byte, pos, n int, v uint64) {
	for i := 0; i < n; i++ {
		p := pos + i
		bit := byte(v>>(uint(n-1-i))) & 1
		mask := byte(1) << (7 - uint(p&7))
		if bit == 1 {
			b[p>>3] |= mask
		} else {
			b[p>>3] &^= mask
		}
	}
}

// GetBits reads n bits at bit position pos.
func GetBits(b []byte, pos, n int) uint64 {
	r := BitReader{B: b, Pos: pos}
	v, _ := r.Read(n)
	return v
}

type Header struct {
	Version   int
	CkSize    int // 0,1,2 (=0,32,64 bits)
	Entropy   uint32
	Transform uint64
	BlockSize int
	SzMask    int
	OrigSize  int64
	Checksum  uint32
	Bits      int // total header length in bits
	// bit offsets of fields
	OffVersion, OffCk, OffEntropy, OffTransform, OffBlockSize, OffSzMask, OffSize, OffPad, OffChecksum int
}

type Block struct {
	ID         int
	Start      int // bit offset of the 5-bit field
	LW         int // width of the length field
	LenBits    int // payload length in bits
	Payload    int // bit offset of the payload
	Mode       byte
	SkipFlags  byte
	HasSkip    bool
	DataSize   int
	PreLen     int    // length before entropy decoding (post transform length)
	Ck         uint64 // block checksum
	HeadBits   int    // bits of payload head (mode, skip, len, checksum)
	OffPreLen  int    // absolute bit offset of the length field
	OffCk      int    // absolute bit offset of checksum field (if any)
	OffEntropy int    // absolute bit offset of the entropy coded data
}

type Stream struct {
	H       Header
	Blocks  []Block
	EndPos  int // bit offset of the end marker (8 zero bits)
	EndBits int // bit offset just after the end marker
	Total   int // total bits in the byte slice
}

// HeaderChecksum computes the 24 bit header checksum of format 6.
func HeaderChecksum(version, ckSize int, entropy uint32, transform uint64, blockSize int, szMask int, size int64) uint32 {
	seed := uint32(0x01030507 * uint32(version))
	const HASH = uint32(0x1E35A7BD)
	ck := HASH * seed
	ck ^= HASH * uint32(^ckSize)
	ck ^= HASH * uint32(^entropy)
	ck ^= HASH * uint32((^transform)>>32)
	ck ^= HASH * uint32(^transform)
	ck ^= HASH * uint32(^blockSize)
	if szMask > 0 {
		ck ^= HASH * uint32((^size)>>32)
		ck ^= HASH * uint32(^size)
	}
	ck = (ck >> 23) ^ (ck >> 3)
	return ck & 0xFFFFFF
}

// ParseHeader parses a format 6 header.
func ParseHeader(b []byte) (Header, error) {
	var h Header
	r := &BitReader{B: b}
	m, err := r.Read(32)
	if err != nil {
		return h, err
	}
	if m != Magic {
		return h, errors.New("bad magic")
	}
	rd := func(n int, off *int) uint64 {
		if err != nil {
			return 0
		}
		*off = r.Pos
		var v uint64
		v, err = r.Read(n)
		return v
	}
	h.Version = int(rd(4, &h.OffVersion))
	h.CkSize = int(rd(2, &h.OffCk))
	h.Entropy = uint32(rd(5, &h.OffEntropy))
	h.Transform = rd(48, &h.OffTransform)
	h.BlockSize = int(rd(28, &h.OffBlockSize)) << 4
	h.SzMask = int(rd(2, &h.OffSzMask))
	if h.SzMask > 0 {
		h.OrigSize = int64(rd(16*h.SzMask, &h.OffSize))
	}
	rd(15, &h.OffPad)
	h.Checksum = uint32(rd(24, &h.OffChecksum))
	if err != nil {
		return h, err
	}
	h.Bits = r.Pos
	if h.Version != 6 {
		return h, fmt.Errorf("version %d", h.Version)
	}
	return h, nil
}

// FixHeaderChecksum recomputes the header checksum in place after fields were forged.
func FixHeaderChecksum(b []byte) error {
	h, err := ParseHeader(b)
	if err != nil && h.Bits == 0 {
		return err
	}
	ck := HeaderChecksum(h.Version, h.CkSize, h.Entropy, h.Transform, h.BlockSize, h.SzMask, h.OrigSize)
	SetBits(b, h.OffChecksum, 24, uint64(ck))
	return nil
}

// Parse parses a complete stream (header optional when headerless, then ckSize must be given).
func Parse(b []byte, headerless bool, ckSize int) (*Stream, error) {
	s := &Stream{Total: len(b) * 8}
	r := &BitReader{B: b}
	if !headerless {
		h, err := ParseHeader(b)
		if err != nil {
			return s, err
		}
		s.H = h
		r.Pos = h.Bits
		ckSize = h.CkSize
	}
	for id := 1; ; id++ {
		start := r.Pos
		lw5, err := r.Read(5)
		if err != nil {
			return s, errors.New("truncated before block length width")
		}
		lw := int(lw5) + 3
		ln, err := r.Read(lw)
		if err != nil {
			return s, errors.New("truncated in block length")
		}
		if ln == 0 {
			s.EndPos = start
			s.EndBits = r.Pos
			return s, nil
		}
		blk := Block{ID: id, Start: start, LW: lw, LenBits: int(ln), Payload: r.Pos}
		if int(ln) > r.Left() {
			s.Blocks = append(s.Blocks, blk)
			return s, errors.New("truncated in block payload")
		}
		pr := &BitReader{B: b, Pos: r.Pos}
		m, _ := pr.Read(8)
		blk.Mode = byte(m)
		if blk.Mode&0x80 == 0 && blk.Mode&0x10 != 0 {
			sk, _ := pr.Read(8)
			blk.SkipFlags = byte(sk)
			blk.HasSkip = true
		} else if blk.Mode&0x80 == 0 {
			blk.SkipFlags = (blk.Mode << 4) | 0x0F
		}
		blk.DataSize = 1 + int((blk.Mode>>5)&3)
		blk.OffPreLen = pr.Pos
		pl, _ := pr.Read(8 * blk.DataSize)
		blk.PreLen = int(pl)
		blk.OffCk = pr.Pos
		if ckSize == 1 {
			blk.Ck, _ = pr.Read(32)
		} else if ckSize == 2 {
			blk.Ck, _ = pr.Read(64)
		}
		blk.OffEntropy = pr.Pos
		blk.HeadBits = pr.Pos - r.Pos
		r.Pos += int(ln)
		s.Blocks = append(s.Blocks, blk)
	}
}
