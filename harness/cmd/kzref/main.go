// kzref: minimal encoder/decoder front end using only the public stream API. It is built twice: against the pinned
// reference snapshot of kanzi-go (commit 76efab5, /verif/reference) and - as part of kzh - against the current tree.
package main

import (
	"crypto/sha256"
	"encoding/hex"
	"encoding/json"
	"fmt"
	"io"
	"os"

	kio "github.com/flanglet/kanzi-go/v2/io"
	"kzverif/fio"
	"kzverif/gen"
)

type encReq struct {
	Transform string `json:"transform"`
	Entropy   string `json:"entropy"`
	Block     uint   `json:"block"`
	Jobs      uint   `json:"jobs"`
	Ck        uint   `json:"ck"`
	Hint      int64  `json:"hint"`
	Shape     string `json:"shape"`
	Seed      int64  `json:"seed"`
	Size      int    `json:"size"`
	Out       string `json:"out"`
}

func dig(b []byte) string {
	h := sha256.Sum256(b)
	return hex.EncodeToString(h[:8])
}

func main() {
	if len(os.Args) < 2 {
		os.Exit(2)
	}
	defer func() {
		if p := recover(); p != nil {
			fmt.Printf("{\"ok\":false,\"err\":%q}\n", fmt.Sprint("panic: ", p))
			os.Exit(0)
		}
	}()
	switch os.Args[1] {
	case "enc":
		// kzref enc '<json list of requests>' : one result line per request
		var reqs []encReq
		if err := json.Unmarshal([]byte(os.Args[2]), &reqs); err != nil {
			fmt.Fprintln(os.Stderr, err)
			os.Exit(2)
		}
		for _, r := range reqs {
			fmt.Println(encode(r))
		}
	case "dec":
		// kzref dec <jobs> <file>... : one result line per file
		var jobs uint
		fmt.Sscan(os.Args[2], &jobs)
		for _, f := range os.Args[3:] {
			fmt.Println(decode(f, jobs))
		}
	}
}

func encode(r encReq) (res string) {
	defer func() {
		if p := recover(); p != nil {
			res = fmt.Sprintf("{\"ok\":false,\"out\":%q,\"err\":%q}", r.Out, fmt.Sprint("panic: ", p))
		}
	}()
	data := gen.Make(r.Shape, r.Seed, r.Size)
	sink := &fio.Sink{}
	ctx := map[string]any{"transform": r.Transform, "entropy": r.Entropy, "blockSize": r.Block, "jobs": r.Jobs, "checksum": r.Ck}
	if r.Hint >= 0 {
		ctx["fileSize"] = r.Hint
	}
	w, err := kio.NewWriterWithCtx(sink, ctx)
	if err != nil {
		return fmt.Sprintf("{\"ok\":false,\"out\":%q,\"err\":%q}", r.Out, err.Error())
	}
	if _, err := w.Write(data); err != nil {
		return fmt.Sprintf("{\"ok\":false,\"out\":%q,\"err\":%q}", r.Out, err.Error())
	}
	if err := w.Close(); err != nil {
		return fmt.Sprintf("{\"ok\":false,\"out\":%q,\"err\":%q}", r.Out, err.Error())
	}
	if err := os.WriteFile(r.Out, sink.Data, 0644); err != nil {
		return fmt.Sprintf("{\"ok\":false,\"out\":%q,\"err\":%q}", r.Out, err.Error())
	}
	return fmt.Sprintf("{\"ok\":true,\"out\":%q,\"orig\":%q,\"len\":%d,\"stream\":%q}", r.Out, dig(data), len(data), dig(sink.Data))
}

func decode(file string, jobs uint) (res string) {
	defer func() {
		if p := recover(); p != nil {
			res = fmt.Sprintf("{\"ok\":false,\"file\":%q,\"err\":%q}", file, fmt.Sprint("panic: ", p))
		}
	}()
	b, err := os.ReadFile(file)
	if err != nil {
		return fmt.Sprintf("{\"ok\":false,\"file\":%q,\"err\":%q}", file, err.Error())
	}
	r, err := kio.NewReaderWithCtx(&fio.Source{Data: b}, map[string]any{"jobs": jobs})
	if err != nil {
		return fmt.Sprintf("{\"ok\":false,\"file\":%q,\"err\":%q}", file, err.Error())
	}
	out, err := io.ReadAll(r)
	r.Close()
	if err != nil {
		return fmt.Sprintf("{\"ok\":false,\"file\":%q,\"err\":%q,\"dig\":%q,\"len\":%d}", file, err.Error(), dig(out), len(out))
	}
	return fmt.Sprintf("{\"ok\":true,\"file\":%q,\"dig\":%q,\"len\":%d}", file, dig(out), len(out))
}
