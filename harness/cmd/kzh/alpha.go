package main

// Driver for the alphabet header (C12): alphabets through the real entropy.EncodeAlphabet / DecodeAlphabet; the bits written,
// the alphabet read back and the bits consumed are recorded and judged by Trace_Alphabet.tla with the operators of KzAlphabet.tla.

import (
	"bufio"
	"encoding/json"
	"fmt"
	"os"

	"github.com/flanglet/kanzi-go/v2/bitstream"
	"github.com/flanglet/kanzi-go/v2/entropy"
	"kzverif/fio"
	"kzverif/tr"
)

type alphaCase struct {
	Alpha []int `json:"alpha"`
	Pre   int   `json:"pre"` // bits written before the header (alignment)
}

func runAlpha(c alphaCase) (ev tr.Ev) {
	ev = tr.Ev{"ev": "ALPHA", "alpha": c.Alpha, "pre": c.Pre, "bits": []int{}, "encRet": -1, "encErr": "", "dec": []int{}, "decRet": -1, "decErr": "", "used": -1, "sentinel": false}
	defer func() {
		if p := recover(); p != nil {
			ev["decErr"] = fmt.Sprint("panic: ", p)
		}
	}()
	sink := &fio.Sink{}
	obs, _ := bitstream.NewDefaultOutputBitStream(sink, 1024)
	if c.Pre > 0 {
		obs.WriteBits(0x2AAAAAAAAAAAAAAA, uint(c.Pre))
	}
	w0 := obs.Written()
	n, err := entropy.EncodeAlphabet(obs, c.Alpha)
	ev["encRet"] = n
	if err != nil {
		ev["encErr"] = err.Error()
		return ev
	}
	nbits := int(obs.Written() - w0)
	const sentinel = uint64(0xC3A5F00D12345678)
	obs.WriteBits(sentinel, 64)
	obs.Close()
	bits := make([]int, nbits)
	for i := 0; i < nbits; i++ {
		p := c.Pre + i
		bits[i] = int(sink.Data[p/8]>>uint(7-p%8)) & 1
	}
	ev["bits"] = bits
	ibs, _ := bitstream.NewDefaultInputBitStream(&fio.Source{Data: sink.Data}, 1024)
	if c.Pre > 0 {
		ibs.ReadBits(uint(c.Pre))
	}
	r0 := ibs.Read()
	out := make([]int, 256)
	m, derr := entropy.DecodeAlphabet(ibs, out)
	ev["decRet"] = m
	if derr != nil {
		ev["decErr"] = derr.Error()
		return ev
	}
	ev["used"] = int(ibs.Read() - r0)
	if m >= 0 && m <= 256 {
		ev["dec"] = out[:m]
	}
	ev["sentinel"] = ibs.ReadBits(64) == sentinel
	return ev
}

// kzh alpha <cases.ndjson> <trace.ndjson>
func cmdAlpha(args []string) int {
	in, err := os.Open(args[0])
	if err != nil {
		fmt.Fprintln(os.Stderr, err)
		return 2
	}
	defer in.Close()
	w, err := tr.Open(args[1])
	if err != nil {
		fmt.Fprintln(os.Stderr, err)
		return 2
	}
	sc := bufio.NewScanner(in)
	sc.Buffer(make([]byte, 1<<20), 1<<26)
	n := 0
	for sc.Scan() {
		var c alphaCase
		if err := json.Unmarshal(sc.Bytes(), &c); err != nil {
			fmt.Fprintln(os.Stderr, "bad case:", err)
			return 2
		}
		if c.Alpha == nil {
			c.Alpha = []int{}
		}
		w.Emit(runAlpha(c))
		n++
	}
	w.Close()
	fmt.Println(n)
	return 0
}

func init() {
	commands["alpha"] = cmdAlpha
}
