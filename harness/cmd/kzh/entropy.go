package main

// Driver for C12: every entropy codec as an exact inverse pair with bit-exact consumption (sentinel word).

import (
	"encoding/json"
	"flag"
	"fmt"
	"math/rand"
	"os"
	"strings"
	"sync"

	kanzi "github.com/flanglet/kanzi-go/v2"
	"github.com/flanglet/kanzi-go/v2/bitstream"
	"github.com/flanglet/kanzi-go/v2/entropy"
	"kzverif/fio"
	"kzverif/gen"
	"kzverif/tr"
)

type entCase struct {
	ID    int    `json:"id"`
	Codec string `json:"codec"`
	Len   int    `json:"len"`
	Fam   string `json:"fam"` // data family: a gen shape, or "alpha:<k>", or "rare:<r>:<d>"
	Seed  int64  `json:"seed"`
	Lead  int    `json:"lead"` // bits written before the block (alignment of the block in the bitstream)
	// constructor parameters (chunk size, log range) when the codec is built by its own constructor instead of the factory:
	// HUFFMAN [chunk], RANGE [chunk, logRange], ANS0/ANS1 [chunk, logRange]
	Args []uint `json:"args,omitempty"`
	// Split > 1: the data is a sequence of Split blocks written by successive Write calls on ONE encoder and read back by the same
	// sequence of Read calls on one decoder (what ROLZ does with its literal / length / index streams)
	Split int `json:"split,omitempty"`
}

// pieces cuts n bytes into the blocks of a case
func (c entCase) pieces(n int) [][2]int {
	if c.Split <= 1 || n < c.Split {
		return [][2]int{{0, n}}
	}
	var out [][2]int
	cut := 0
	for i := 1; i <= c.Split; i++ {
		end := n * i / c.Split
		if i < c.Split && i%2 == 1 {
			end = max(cut, end-n/(3*c.Split)) // unequal blocks
		}
		out = append(out, [2]int{cut, end})
		cut = end
	}
	return out
}

// directCodec builds the codec of a case through its public constructor with explicit parameters
func directEncoder(c entCase, obs kanzi.OutputBitStream) (kanzi.EntropyEncoder, error) {
	switch c.Codec {
	case "HUFFMAN":
		return entropy.NewHuffmanEncoder(obs, int(c.Args[0]))
	case "RANGE":
		return entropy.NewRangeEncoder(obs, c.Args[0], c.Args[1])
	case "ANS0":
		return entropy.NewANSRangeEncoder(obs, 0, c.Args[0], c.Args[1])
	case "ANS1":
		return entropy.NewANSRangeEncoder(obs, 1, c.Args[0], c.Args[1])
	}
	return nil, fmt.Errorf("no direct constructor for %s", c.Codec)
}

func directDecoder(c entCase, ibs kanzi.InputBitStream) (kanzi.EntropyDecoder, error) {
	switch c.Codec {
	case "HUFFMAN":
		return entropy.NewHuffmanDecoder(ibs, int(c.Args[0]))
	case "RANGE":
		return entropy.NewRangeDecoder(ibs, c.Args[0])
	case "ANS0":
		return entropy.NewANSRangeDecoder(ibs, 0, c.Args[0])
	case "ANS1":
		return entropy.NewANSRangeDecoder(ibs, 1, c.Args[0])
	}
	return nil, fmt.Errorf("no direct constructor for %s", c.Codec)
}

const sentinel = uint64(0xA5C3F00F5A3C0FF0)

// geoLen: length of the block of family geo:r:q10:k:base (see entData)
func geoLen(r, q10, k, base int) int {
	n := min(r, 250)
	cnt := float64(base)
	for j := 0; j < k && j < 6+250-r; j++ {
		n += int(cnt)
		cnt = cnt * float64(q10) / 10
	}
	return min(n, 1<<20)
}

func entData(c entCase) []byte {
	rnd := rand.New(rand.NewSource(c.Seed))
	var k, r, d int
	if n, _ := fmt.Sscanf(c.Fam, "alpha:%d", &k); n == 1 {
		b := make([]byte, c.Len)
		for i := range b {
			b[i] = byte(rnd.Intn(k) * (256 / k))
		}
		return b
	}
	if n, _ := fmt.Sscanf(c.Fam, "rare:%d:%d", &r, &d); n == 2 {
		// r symbols that occur once, d dominant symbols share the rest (stresses frequency scaling)
		b := make([]byte, c.Len)
		for i := range b {
			b[i] = byte(255 - rnd.Intn(d))
		}
		for i := 0; i < r && i < c.Len; i++ {
			b[rnd.Intn(c.Len)] = byte(i)
		}
		return b
	}
	if c.Fam == "anti" {
		// the worst case of the bit-wise coders: every bit is the one the codec's own predictor rates less likely (the output
		// expands by 8-15 %; no ordinary data comes near that)
		ctx := map[string]any{"entropy": c.Codec, "bsVersion": uint(6), "blockSize": uint(max(1024, (c.Len+15)&^15)), "jobs": uint(1), "size": uint(c.Len)}
		var get func() int
		var upd func(byte)
		if c.Codec == "CM" {
			if p, err := entropy.NewCMPredictor(&ctx); err == nil {
				get, upd = p.Get, p.Update
			}
		} else if p, err := entropy.NewTPAQPredictor(&ctx); err == nil {
			get, upd = p.Get, p.Update
		}
		if get != nil {
			b := make([]byte, c.Len)
			for i := range b {
				var x byte
				for bit := 7; bit >= 0; bit-- {
					v := byte(0)
					if get() < 2048 {
						v = 1
					}
					upd(v)
					x |= v << uint(bit)
				}
				b[i] = x
			}
			return b
		}
	}
	var q10, base int
	if n, _ := fmt.Sscanf(c.Fam, "geo:%d:%d:%d:%d", &r, &q10, &k, &base); n == 4 && k > 0 {
		// an exact histogram: r symbols that occur once under a geometric ladder of k dominant symbols (counts base, base*q, base*q^2
		// ...; q = q10/10), the dominant counts given to symbols in an order that is not the order of their values; the block is the
		// shuffled multiset (its length is what the histogram gives, c.Len is ignored). Such histograms drive prefix-code builders
		// into their length-limiting paths.
		var b []byte
		for i := 0; i < r && i < 250; i++ {
			b = append(b, byte(i))
		}
		cnt := float64(base)
		order := rnd.Perm(k)
		for j := 0; j < k && j < 6+250-r; j++ {
			sym := byte(255 - order[j]%6 - 6*(j/6))
			for x := 0; x < int(cnt) && len(b) < 1<<20; x++ {
				b = append(b, sym)
			}
			cnt = cnt * float64(q10) / 10
		}
		rnd.Shuffle(len(b), func(i, j int) { b[i], b[j] = b[j], b[i] })
		return b
	}
	var q, seg int
	if n, _ := fmt.Sscanf(c.Fam, "hot:%d:%d", &q, &seg); n == 2 && seg > 0 {
		// non-stationary data: segments of seg bytes, every fourth one (index q mod 4) holds permutations of 254 distinct
		// values, the others two alternating symbols: codes built over a whole chunk are far from the local statistics
		b := make([]byte, c.Len)
		perm := rnd.Perm(254)
		for i := range b {
			if (i/seg)%4 == q {
				if i%254 == 0 {
					perm = rnd.Perm(254)
				}
				b[i] = byte(perm[i%254] + 2)
			} else {
				b[i] = byte(i & 1)
			}
		}
		return b
	}
	if n, _ := fmt.Sscanf(c.Fam, "piecewise:%d", &seg); n == 1 && seg > 0 {
		// every segment has its own distribution
		var b []byte
		kinds := []string{"zeros", "alpha2", "perm", "random", "text", "skew"}
		for len(b) < c.Len {
			m := min(seg, c.Len-len(b))
			switch kinds[rnd.Intn(len(kinds))] {
			case "alpha2":
				for i := 0; i < m; i++ {
					b = append(b, byte(i&1))
				}
			case "perm":
				for i := 0; i < m; i++ {
					b = append(b, byte((i*37+11)%254+2))
				}
			case "zeros":
				b = append(b, make([]byte, m)...)
			case "random":
				t := make([]byte, m)
				rnd.Read(t)
				b = append(b, t...)
			case "text":
				b = append(b, gen.Make("text", rnd.Int63(), m)...)
			default:
				b = append(b, gen.Make("skew", rnd.Int63(), m)...)
			}
		}
		return b
	}
	return gen.Make(c.Fam, c.Seed, c.Len)
}

func runEntropy(c entCase) tr.Ev {
	ev := tr.Ev{"ev": "ENT", "id": c.ID, "codec": c.Codec, "len": c.Len, "fam": c.Fam, "lead": c.Lead, "enc": "none", "dec": "none",
		"encBits": 0, "decBits": 0, "same": false, "sentinel": false, "msg": ""}
	if len(c.Args) > 0 {
		ev["args"] = fmt.Sprint(c.Args)
	}
	if c.Split > 1 {
		ev["args"] = strings.TrimSpace(fmt.Sprint(c.Args, " blocks=", c.Split))
	}
	data := entData(c)
	et, err := entropy.GetType(c.Codec)
	if err != nil {
		ev["enc"] = "error"
		ev["msg"] = err.Error()
		return ev
	}
	ctx := func() map[string]any {
		return map[string]any{"entropy": c.Codec, "bsVersion": uint(6), "blockSize": uint(max(1024, (c.Len+15)&^15)), "jobs": uint(1), "size": uint(c.Len)}
	}
	sink := &fio.Sink{}
	obs, _ := bitstream.NewDefaultOutputBitStream(sink, 16384)
	var encBits uint64
	func() {
		defer func() {
			if p := recover(); p != nil {
				ev["enc"] = "panic"
				ev["msg"] = fmt.Sprint(p)
			}
		}()
		if c.Lead > 0 {
			obs.WriteBits(0x2AAAAAAAAAAAAAAA>>(64-uint(c.Lead)), uint(c.Lead))
		}
		start := obs.Written()
		var ee kanzi.EntropyEncoder
		var err error
		if len(c.Args) > 0 {
			ee, err = directEncoder(c, obs)
		} else {
			ee, err = entropy.NewEntropyEncoder(obs, ctx(), et)
		}
		if err != nil {
			ev["enc"] = "error"
			ev["msg"] = err.Error()
			return
		}
		for _, pc := range c.pieces(len(data)) {
			if _, err := ee.Write(data[pc[0]:pc[1]]); err != nil {
				ev["enc"] = "error"
				ev["msg"] = err.Error()
				return
			}
		}
		ee.Dispose()
		encBits = obs.Written() - start
		obs.WriteBits(sentinel, 64)
		obs.Close()
		ev["enc"] = "ok"
	}()
	ev["encBits"] = int(encBits)
	if ev["enc"] != "ok" {
		return ev
	}
	src := &fio.Source{Data: sink.Data}
	ibs, _ := bitstream.NewDefaultInputBitStream(src, 16384)
	out := make([]byte, len(data))
	func() {
		defer func() {
			if p := recover(); p != nil {
				ev["dec"] = "panic"
				ev["msg"] = fmt.Sprint(p)
			}
		}()
		if c.Lead > 0 {
			ibs.ReadBits(uint(c.Lead))
		}
		start := ibs.Read()
		var ed kanzi.EntropyDecoder
		var err error
		if len(c.Args) > 0 {
			ed, err = directDecoder(c, ibs)
		} else {
			ed, err = entropy.NewEntropyDecoder(ibs, ctx(), et)
		}
		if err != nil {
			ev["dec"] = "error"
			ev["msg"] = err.Error()
			return
		}
		for _, pc := range c.pieces(len(data)) {
			if _, err := ed.Read(out[pc[0]:pc[1]]); err != nil {
				ev["dec"] = "error"
				ev["msg"] = err.Error()
				return
			}
		}
		ed.Dispose()
		ev["decBits"] = int(ibs.Read() - start)
		ev["same"] = string(out) == string(data)
		s := ibs.ReadBits(64)
		ev["sentinel"] = s == sentinel
		ev["dec"] = "ok"
	}()
	return ev
}

func cmdEntropy(args []string) int {
	fs := flag.NewFlagSet("entropy", flag.ExitOnError)
	n := fs.Int("n", 500, "random cases in addition to the grid")
	seed := fs.Int64("seed", 1, "seed")
	out := fs.String("out", "trace.ndjson", "trace file")
	sum := fs.String("sum", "", "summary")
	thorough := fs.Bool("thorough", false, "thorough")
	par := fs.Int("par", 8, "parallelism")
	one := fs.String("case", "", "run one case (JSON)")
	only := fs.String("codecs", "", "comma separated list: keep only the cases of these codecs")
	tables := fs.String("tables", "", "record the calls of NormalizeFrequencies made by the codecs as NORM events into this file")
	maxTables := fs.Int("maxtables", 4000, "at most this many distinct recorded calls")
	fs.Parse(args)
	if *one != "" {
		var c entCase
		if err := json.Unmarshal([]byte(*one), &c); err != nil {
			return 2
		}
		b, _ := json.Marshal(runEntropy(c))
		fmt.Println(string(b))
		return 0
	}
	rnd := rand.New(rand.NewSource(*seed*4241 + 9))
	var cases []entCase
	id := 0
	add := func(codec string, l int, fam string, lead int) {
		if slowEntropy(codec) && l > 300000 && !*thorough {
			l = 300000 + l%1000
		}
		cases = append(cases, entCase{ID: id, Codec: codec, Len: l, Fam: fam, Seed: *seed*131 + int64(id), Lead: lead})
		id++
	}
	// internal chunk sizes: 16 KiB (HUFFMAN, ANS0), 32 KiB (RANGE), 4 MiB (FPAQ, ANS1)
	lens := []int{0, 1, 2, 3, 15, 16, 31, 32, 33, 63, 64, 65, 255, 256, 257, 1023, 1024, 4095, 4096, 16383, 16384, 16385, 32767, 32768, 32769, 40000, 65536, 2*16384 + 7}
	if *thorough {
		lens = append(lens, 1<<20, 4<<20-1, 4<<20, 4<<20+1, 2*(4<<20)+7)
	} else {
		// the codecs with 4 MiB chunks are fast enough to cross a chunk boundary at every run
		for _, codec := range []string{"FPAQ", "ANS1"} {
			for k, l := range []int{4<<20 - 1, 4<<20 + 1, 2*(4<<20) + 7} {
				for _, fam := range []string{"random", "text", "skew"} {
					add(codec, l, fam, []int{0, 5, 8}[k])
				}
			}
		}
	}
	fams := []string{"random", "text", "zeros", "skew", "runs", "dna", "ramp", "alpha:1", "alpha:2", "alpha:3", "alpha:64", "alpha:128", "alpha:256",
		"rare:36:1", "rare:100:2", "rare:200:1", "rare:254:1", "rare:255:1", "rare:10:4"}
	for ci, codec := range entropyNames {
		for li, l := range lens {
			nf := 3
			if *thorough {
				nf = len(fams)
			}
			for k := 0; k < nf; k++ {
				fam := fams[(ci*5+li*3+k*7)%len(fams)]
				add(codec, l, fam, []int{0, 0, 3, 8, 13}[(ci+li+k)%5])
			}
		}
	}
	// every residue of the block length modulo the internal chunk size around the small values (the last chunk of a block has 1, 2, 3, ...
	// bytes: loops unrolled by 2 / 4 / 8 and the raw-copy thresholds of the codecs all live there)
	chunkOf := map[string]int{"HUFFMAN": 16384, "ANS0": 16384, "RANGE": 32768, "FPAQ": 4 << 20, "ANS1": 4 << 20, "NONE": 16384, "CM": 16384, "TPAQ": 16384, "TPAQX": 16384}
	for ci, codec := range entropyNames {
		c := chunkOf[codec]
		var residues []int
		switch {
		case c > 1<<20 && !*thorough:
			residues = []int{0, 1, 2, 3, 4, 5, 6, 7, 8, 9, 15, 16, 17, 31, 32, 33}
		case slowEntropy(codec) && !*thorough:
			residues = []int{1, 2, 3, 4, 5, 7, 8, 9}
		default:
			for r := 0; r <= 40; r++ {
				residues = append(residues, r)
			}
			residues = append(residues, 63, 64, 65, 127, 128, 129)
		}
		for ri, r := range residues {
			add(codec, c+r, []string{"text", "skew", "alpha:64"}[(ci+ri)%3], []int{0, 3, 8}[(ci+ri)%3])
		}
	}
	// constructor parameters: every log range and a few chunk sizes, through the public constructors
	{
		pfams := []string{"skew", "text", "alpha:2", "alpha:3", "rare:100:2", "rare:254:1", "random", "zeros", "geo:40:15:3:0"}
		k := 0
		addp := func(codec string, l int, args ...uint) {
			cases = append(cases, entCase{ID: id, Codec: codec, Len: l, Fam: pfams[k%len(pfams)], Seed: *seed*131 + int64(id), Lead: []int{0, 3, 8}[k%3], Args: args})
			id++
			k++
		}
		for lr := uint(8); lr <= 16; lr++ {
			for _, chunk := range []uint{1024, 4096, 16384} {
				for _, l := range []int{100, 1500, 5000, 40000} {
					if !*thorough && (k/7)%2 == 1 && l != 5000 {
						k++
						continue
					}
					addp("ANS0", l, chunk, lr)
					addp("ANS1", l, chunk, lr)
					addp("RANGE", l, chunk, lr)
				}
			}
		}
		// chunks of 64 KiB and more: the RANGE coder lowers its log range to the chunk length, so only these reach the largest ones
		for lr := uint(8); lr <= 16; lr++ {
			for ci, chunk := range []uint{65536, 131072} {
				if !*thorough && (int(lr)+ci)%2 == 1 && lr < 15 {
					continue
				}
				addp("RANGE", 66000+ci*70000, chunk, lr)
				addp("ANS0", 66000+ci*70000, chunk, lr)
				addp("ANS1", 66000+ci*70000, chunk, lr)
			}
		}
		for _, chunk := range []uint{1024, 2048, 4096, 16384, 65536} {
			for _, l := range []int{100, 1023, 1024, 1025, 5000, 70000} {
				addp("HUFFMAN", l, min(chunk, 16384))
				addp("RANGE", l, chunk, 12)
				addp("ANS0", l, chunk, 12)
			}
		}
	}
	// several blocks through one encoder / decoder object (state left over from the previous block)
	{
		k := 0
		sfams := []string{"text", "skew", "random", "alpha:3", "rare:100:2", "dna", "runs"}
		// only the codecs with a static model per chunk: the bit-wise coders keep one arithmetic-coder state for the life of the object
		// (flushed by Dispose), so one object carries one block by design and nothing in the tree uses them otherwise
		for _, codec := range []string{"NONE", "HUFFMAN", "ANS0", "ANS1", "RANGE"} {
			for _, split := range []int{2, 3, 5} {
				for _, l := range []int{40, 3000, 50000} {
					if slowEntropy(codec) && l > 20000 {
						l = 20000
					}
					cases = append(cases, entCase{ID: id, Codec: codec, Len: l, Fam: sfams[k%len(sfams)], Seed: *seed*131 + int64(id), Lead: []int{0, 3, 8}[k%3], Split: split})
					id++
					k++
				}
			}
		}
		for _, codec := range []string{"ANS0", "ANS1", "RANGE", "HUFFMAN"} {
			for _, split := range []int{2, 4} {
				args := []uint{2048, 10}
				if codec == "HUFFMAN" {
					args = []uint{2048}
				}
				cases = append(cases, entCase{ID: id, Codec: codec, Len: 9000, Fam: sfams[k%len(sfams)], Seed: *seed*131 + int64(id), Split: split, Args: args})
				id++
				k++
			}
		}
	}
	// anti-model blocks for the bit-wise coders
	for _, codec := range []string{"CM", "TPAQ", "TPAQX"} {
		for li, l := range []int{33, 65, 100, 200, 500, 1000, 4000, 20000} {
			if l > 5000 && !*thorough {
				continue
			}
			add(codec, l, "anti", []int{0, 3, 8}[li%3])
		}
	}
	// exact histograms: r rare symbols under a geometric ladder of dominant ones (prefix-code length limiting, table scaling)
	for _, rr := range []int{40, 100, 130, 200, 245} {
		for _, q10 := range []int{12, 14, 15, 16, 17, 18, 20, 25} {
			for _, kk := range []int{3, 5, 8, 12} {
				for bi, bb := range []int{rr, 2 * rr, rr / 2} {
					if !*thorough && bi == 2 {
						continue
					}
					fam := fmt.Sprintf("geo:%d:%d:%d:%d", rr, q10, kk, bb)
					for ci, codec := range []string{"HUFFMAN", "ANS0", "RANGE", "ANS1", "FPAQ"} {
						if ci == 0 || *thorough || (rr+q10+kk+ci)%4 == 0 {
							add(codec, geoLen(rr, q10, kk, bb), fam, []int{0, 3, 8}[(rr+q10+kk+ci)%3])
						}
					}
				}
			}
		}
	}
	if *thorough {
		// the bit-wise coders (CM, TPAQ, TPAQX share one arithmetic coder) split blocks of 64 MiB and more into 8 chunks
		add("CM", 64<<20+5, "text", 0)
		add("CM", 64<<20, "skew", 3)
		add("FPAQ", 64<<20+13, "text", 5)
	}
	// non-stationary data: the statistics of a part of a chunk differ from those of the whole chunk, for every quarter of the
	// internal chunk sizes (16 KiB, 32 KiB) and across chunk boundaries
	for ci, codec := range entropyNames {
		for li, l := range []int{16384, 32768, 2*16384 + 7, 65536} {
			for q := 0; q < 4; q++ {
				for si, seg := range []int{4096, 8192} {
					add(codec, l, fmt.Sprintf("hot:%d:%d", q, seg), []int{0, 3, 8}[(ci+li+q+si)%3])
				}
			}
			add(codec, l, "piecewise:4096", 0)
			add(codec, l+5000, "piecewise:1024", 5)
		}
	}
	for i := 0; i < *n; i++ {
		codec := pick(rnd, entropyNames)
		l := rnd.Intn(70000)
		if rnd.Intn(4) == 0 {
			l = rnd.Intn(600)
		}
		fam := pick(rnd, fams)
		if rnd.Intn(3) == 0 {
			fam = fmt.Sprintf("rare:%d:%d", rnd.Intn(256), 1+rnd.Intn(8))
		} else if rnd.Intn(3) == 0 {
			fam = pick(rnd, gen.Shapes)
		} else if rnd.Intn(4) == 0 {
			fam = fmt.Sprintf("piecewise:%d", pick(rnd, []int{256, 1024, 4096, 8192}))
		}
		add(codec, l, fam, rnd.Intn(64))
	}
	if *only != "" {
		keep := map[string]bool{}
		for _, c := range strings.Split(*only, ",") {
			keep[c] = true
		}
		var kept []entCase
		for _, c := range cases {
			if keep[c.Codec] && c.Len <= 1<<20 {
				kept = append(kept, c)
			}
		}
		cases = kept
	}
	var tmu sync.Mutex
	var tevs []tr.Ev
	tseen := map[string]bool{}
	tcalls, tpre := 0, 0
	if *tables != "" {
		// every call the codecs make: histogram on entry, table and alphabet on return (hook in the entropy package, build tag verif)
		entropy.VerifNormHook = func(in, out, alphabet []int, totalFreq, scale int) {
			var cin, cout, pos []int
			sum := 0
			big := false
			for i, f := range in {
				if f != 0 {
					cin, cout, pos = append(cin, f), append(cout, out[i]), append(pos, i)
					sum += f
					if int64(f)*int64(scale) >= 1<<30 {
						big = true
					}
				}
			}
			tmu.Lock()
			defer tmu.Unlock()
			tcalls++
			if sum != totalFreq || len(cin) == 0 || len(in) != 256 {
				// not a histogram with its total (the caller's business, reported by the round trip of C12): outside the statement
				if sum != totalFreq {
					tpre++
				}
				return
			}
			alphaOK := true
			for i, p := range pos {
				if i >= len(alphabet) || alphabet[i] != p {
					alphaOK = false
				}
			}
			for i, f := range out {
				if in[i] == 0 && f != 0 {
					alphaOK = false
				}
			}
			key := fmt.Sprint(cin, scale)
			if tseen[key] || len(tevs) >= *maxTables {
				return
			}
			tseen[key] = true
			if int64(sum)*int64(scale) >= 1<<30 {
				big = true
			}
			tevs = append(tevs, tr.Ev{"ev": "NORM", "in": cin, "scale": scale, "total": totalFreq, "conv": "codec", "big": big, "err": "", "panic": false,
				"out": cout, "n": len(cin), "alphaOK": alphaOK})
		}
	}
	evs := make([]tr.Ev, len(cases))
	var wg sync.WaitGroup
	sem := make(chan struct{}, *par)
	for i := range cases {
		wg.Add(1)
		sem <- struct{}{}
		go func(i int) {
			defer wg.Done()
			defer func() { <-sem }()
			if !guardBytes(cases[i].Len, func() { evs[i] = runEntropy(cases[i]) }) {
				evs[i] = tr.Ev{"ev": "ENT", "id": cases[i].ID, "codec": cases[i].Codec, "len": cases[i].Len, "fam": cases[i].Fam, "lead": cases[i].Lead,
					"enc": "hang", "dec": "none", "encBits": 0, "decBits": 0, "same": false, "sentinel": false, "msg": "encoder or decoder did not return"}
			}
			b, _ := json.Marshal(cases[i])
			evs[i]["desc"] = string(b)
		}(i)
	}
	wg.Wait()
	// a case that did not return while many ran in parallel is repeated alone with a three times longer bound; only that counts
	rerunHungCases(evs, "enc", func(i int) tr.Ev { return runEntropy(cases[i]) })
	w, err := tr.Open(*out)
	if err != nil {
		return 2
	}
	w.EmitAll(evs)
	w.Close()
	if *tables != "" {
		tw, err := tr.Open(*tables)
		if err != nil {
			return 2
		}
		tmu.Lock()
		tw.EmitAll(tevs)
		tw.Emit(tr.Ev{"ev": "NORMSUM", "calls": tcalls, "distinct": len(tevs), "inconsistentTotal": tpre})
		tmu.Unlock()
		tw.Close()
	}
	s := recSummary{ByMode: map[string]int{}}
	distinct := map[string]bool{}
	for i := range evs {
		s.Runs++
		s.ByMode[cases[i].Codec]++
		if cases[i].Len > 32 {
			distinct[fmt.Sprintf("%s|%d|%s|%d", cases[i].Codec, cases[i].Len, cases[i].Fam, cases[i].Lead)] = true
		}
		if len(s.Samples) < 4 && i%97 == 5 {
			s.Samples = append(s.Samples, cases[i])
		}
	}
	s.Distinct = len(distinct)
	s.Events = len(evs)
	b, _ := json.MarshalIndent(s, "", " ")
	if *sum != "" {
		os.WriteFile(*sum, b, 0644)
	}
	fmt.Println(string(b))
	return 0
}

func init() {
	commands["entropy"] = cmdEntropy
}
