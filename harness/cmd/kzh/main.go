// kzh: the Go side of the kanzi-go verification harness (see /verif/DESIGN.md).
package main

import (
	"fmt"
	"os"
)

var commands = map[string]func([]string) int{}

func main() {
	if len(os.Args) < 2 {
		fmt.Fprintln(os.Stderr, "usage: kzh <command> [args]")
		os.Exit(2)
	}
	f, ok := commands[os.Args[1]]
	if !ok {
		fmt.Fprintln(os.Stderr, "unknown command", os.Args[1])
		os.Exit(2)
	}
	os.Exit(f(os.Args[2:]))
}

func init() {
	commands["replay-reader"] = cmdReplayReader
}
