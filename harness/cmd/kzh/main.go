package main

import (
	"fmt"
	kio "github.com/flanglet/kanzi-go/v2/io"
)

func main() { fmt.Println(kio.NewReader) }
