package main

// Driver for the block checksum functions (C02, C10): v2/hash against the independent implementation harness/xxref.

import (
	"flag"
	"fmt"
	"math/rand"

	"github.com/flanglet/kanzi-go/v2/hash"
	"kzverif/gen"
	"kzverif/tr"
	"kzverif/xxref"
)

func cmdHash(args []string) int {
	fs := flag.NewFlagSet("hash", flag.ExitOnError)
	maxLen := fs.Int("max", 1200, "every length from 0 to max")
	n := fs.Int("n", 300, "random longer inputs")
	seed := fs.Int64("seed", 1, "seed")
	out := fs.String("out", "trace.ndjson", "trace")
	fs.Parse(args)
	w, err := tr.Open(*out)
	if err != nil {
		return 2
	}
	rnd := rand.New(rand.NewSource(*seed*911 + 3))
	const kanziSeed = 0x4B414E5A
	emit := func(data []byte, sd uint32, what string) {
		h32, e1 := hash.NewXXHash32(sd)
		h64, e2 := hash.NewXXHash64(uint64(sd))
		if e1 != nil || e2 != nil {
			w.Emit(tr.Ev{"ev": "HASH", "bits": 0, "n": len(data), "seed": fmt.Sprint(sd), "got": "constructor error", "want": "", "what": what})
			return
		}
		w.Emit(tr.Ev{"ev": "HASH", "bits": 32, "n": len(data), "seed": fmt.Sprint(sd), "got": fmt.Sprintf("%08x", h32.Hash(data)), "want": fmt.Sprintf("%08x", xxref.XXH32(data, sd)), "what": what})
		w.Emit(tr.Ev{"ev": "HASH", "bits": 64, "n": len(data), "seed": fmt.Sprint(sd), "got": fmt.Sprintf("%016x", h64.Hash(data)), "want": fmt.Sprintf("%016x", xxref.KanziXXH64(data, uint64(sd))), "what": what})
	}
	cnt := 0
	for l := 0; l <= *maxLen; l++ {
		b := make([]byte, l)
		rnd.Read(b)
		emit(b, kanziSeed, "every length")
		if l%7 == 0 {
			emit(b, uint32(rnd.Int63()), "random seed")
		}
		cnt++
	}
	for i := 0; i < *n; i++ {
		l := rnd.Intn(300000)
		b := gen.Make(pick(rnd, gen.Shapes), int64(i), l)
		emit(b, kanziSeed, "random longer input")
		cnt++
	}
	w.Close()
	fmt.Println(cnt)
	return 0
}

func init() {
	commands["hash"] = cmdHash
}
