package main

// Driver for C14 (and the bit-level part of C06/C08): programs of bit-level operations executed on the real
// DefaultOutputBitStream / DefaultInputBitStream and compared step by step with a trivially correct bit vector.

import (
	"bufio"
	"encoding/json"
	"flag"
	"fmt"
	"math/rand"
	"os"
	"sync"
	"sync/atomic"
	"time"

	"github.com/flanglet/kanzi-go/v2/bitstream"
	"kzverif/fio"
	"kzverif/tr"
)

type bitOp struct {
	Op string `json:"op"` // "bit" | "bits" | "array"
	N  int    `json:"n"`
}

type bitProg struct {
	ID     int     `json:"id"`
	Ops    []bitOp `json:"ops"`
	BufW   uint    `json:"bufW"`   // buffer size of the output bitstream
	BufR   uint    `json:"bufR"`   // buffer size of the input bitstream
	Fill   int     `json:"fill"`   // bytes written by a leading WriteArray so that the program starts `Fill` bytes into the buffer
	Chunks []int   `json:"chunks"` // chunk sizes of the source on the read side
	Seed   int64   `json:"seed"`
	Src    string  `json:"src"` // origin of the program: "model" (KzBitOut / KzBitIn edge cover) or "random"
}

// bit vector oracle
type bitVec struct{ bits []byte }

func (v *bitVec) add(val uint64, n int) {
	for i := n - 1; i >= 0; i-- {
		v.bits = append(v.bits, byte(val>>uint(i))&1)
	}
}
func (v *bitVec) get(off, n int) uint64 {
	var x uint64
	for i := 0; i < n; i++ {
		x = x<<1 | uint64(v.bits[off+i])
	}
	return x
}
func (v *bitVec) bytes(off, nbits int) []byte {
	out := make([]byte, (nbits+7)/8)
	for i := 0; i < nbits; i++ {
		if v.bits[off+i] == 1 {
			out[i/8] |= 1 << uint(7-i%8)
		}
	}
	return out
}

func runBits(p bitProg) tr.Ev {
	ev := tr.Ev{"ev": "BITPROG", "id": p.ID, "src": p.Src, "bufW": p.BufW, "bufR": p.BufR, "fill": p.Fill, "nops": len(p.Ops),
		"sizes": []int{}, "wcount": []int{}, "rcount": []int{}, "wPanic": "", "rPanic": "", "image": false, "values": false,
		"closedRefusesW": false, "closedRefusesR": false, "closeErr": "", "firstBad": "", "cutOK": true}
	rnd := rand.New(rand.NewSource(p.Seed))
	vec := &bitVec{}
	sink := &fio.Sink{}
	obs, err := bitstream.NewDefaultOutputBitStream(sink, p.BufW)
	if err != nil {
		ev["wPanic"] = err.Error()
		return ev
	}
	ops := p.Ops
	if p.Fill > 0 {
		ops = append([]bitOp{{"array", 8 * p.Fill}}, ops...)
	}
	var sizes, wcount []int
	func() {
		defer func() {
			if q := recover(); q != nil {
				ev["wPanic"] = fmt.Sprint(q)
			}
		}()
		for _, op := range ops {
			start := len(vec.bits)
			switch op.Op {
			case "bit":
				b := rnd.Intn(2)
				vec.add(uint64(b), 1)
				// the documented contract: the least significant bit of the argument is written
				obs.WriteBit(b | (rnd.Intn(2) << 1))
			case "bits":
				val := rnd.Uint64()
				vec.add(val, op.N)
				// only the op.N low bits count
				obs.WriteBits(val, uint(op.N))
			case "array":
				nb := (op.N + 7) / 8
				buf := make([]byte, nb+rnd.Intn(3))
				rnd.Read(buf)
				for i := 0; i < op.N; i++ {
					vec.bits = append(vec.bits, (buf[i/8]>>uint(7-i%8))&1)
				}
				if n := obs.WriteArray(buf, uint(op.N)); int(n) != op.N {
					ev["firstBad"] = fmt.Sprintf("WriteArray(%d) returned %d", op.N, n)
				}
			}
			sizes = append(sizes, len(vec.bits)-start)
			wcount = append(wcount, int(obs.Written()))
		}
		if err := obs.Close(); err != nil {
			ev["closeErr"] = err.Error()
		}
		// closed streams refuse further operations and keep their counter
		w0 := obs.Written()
		refused := false
		func() {
			defer func() {
				if recover() != nil {
					refused = true
				}
			}()
			// each kind of operation must be refused as the FIRST operation on a closed stream (one kind per program)
			switch p.ID % 3 {
			case 0:
				obs.WriteBit(1)
				for i := 0; i < 200; i++ {
					obs.WriteBit(i & 1)
				}
			case 1:
				obs.WriteBits(1, 1)
				for i := 0; i < 80; i++ {
					obs.WriteBits(0x5555, 16)
				}
			default:
				obs.WriteArray(make([]byte, 64), 500)
			}
		}()
		ev["closedRefusesW"] = refused && int(w0) == len(vec.bits) && obs.Close() == nil
	}()
	ev["sizes"] = sizes
	ev["wcount"] = wcount
	total := len(vec.bits)
	want := vec.bytes(0, total)
	ev["image"] = string(sink.Data) == string(want)
	if ev["image"] == false && ev["firstBad"] == "" {
		ev["firstBad"] = fmt.Sprintf("byte image differs (%d bytes, want %d)", len(sink.Data), len(want))
	}
	if ev["wPanic"] != "" {
		return ev
	}
	// read side: the same operations as reads, from a source delivering the bytes in chunks
	src := &fio.Source{Data: want, Chunks: p.Chunks}
	ibs, err := bitstream.NewDefaultInputBitStream(src, p.BufR)
	if err != nil {
		ev["rPanic"] = err.Error()
		return ev
	}
	var rcount []int
	valuesOK := true
	func() {
		defer func() {
			if q := recover(); q != nil {
				ev["rPanic"] = fmt.Sprint(q)
			}
		}()
		off := 0
		for k, op := range ops {
			if p.ID%2 == 1 && k%3 == 0 {
				// a query between the reads (callers use it as an "anything left?" guard): it must not disturb what follows
				if more, _ := ibs.HasMoreToRead(); !more && (op.Op == "bit" || op.N > 0) {
					valuesOK = false
					if ev["firstBad"] == "" {
						ev["firstBad"] = fmt.Sprintf("HasMoreToRead before read op %d says no", k)
					}
				}
			}
			switch op.Op {
			case "bit":
				if uint64(ibs.ReadBit()) != vec.get(off, 1) {
					valuesOK = false
				}
				off++
			case "bits":
				if ibs.ReadBits(uint(op.N)) != vec.get(off, op.N) {
					valuesOK = false
				}
				off += op.N
			case "array":
				buf := make([]byte, (op.N+7)/8)
				if n := ibs.ReadArray(buf, uint(op.N)); int(n) != op.N {
					valuesOK = false
				}
				exp := vec.bytes(off, op.N)
				if op.N%8 != 0 {
					// only the op.N first bits of the last byte are specified
					mask := byte(0xFF) << uint(8-op.N%8)
					buf[len(buf)-1] &= mask
				}
				if string(buf) != string(exp) {
					valuesOK = false
				}
				off += op.N
			}
			if !valuesOK && ev["firstBad"] == "" {
				ev["firstBad"] = fmt.Sprintf("read op %d (%s %d) returned wrong bits", k, op.Op, op.N)
			}
			rcount = append(rcount, int(ibs.Read()))
		}
		ibs.Close()
		refused := false
		func() {
			defer func() {
				if recover() != nil {
					refused = true
				}
			}()
			switch p.ID % 3 {
			case 0:
				for i := 0; i < 200; i++ {
					ibs.ReadBit()
				}
			case 1:
				ibs.ReadBits(8)
				for i := 0; i < 20; i++ {
					ibs.ReadBits(64)
				}
			default:
				ibs.ReadArray(make([]byte, 64), 500)
			}
		}()
		ev["closedRefusesR"] = refused
	}()
	ev["rcount"] = rcount
	ev["values"] = valuesOK
	// truncated source (C09 / C03 at the level of the bit stream): the same reads on the image cut by a few bytes. Every operation that
	// lies entirely before the cut returns the written bits; the first operation that needs a bit beyond the cut must end in the
	// end-of-stream panic - if it returns, a truncated stream goes unnoticed (or the caller spins on phantom bits).
	if ev["rPanic"] == "" && valuesOK && len(want) > 0 {
		cuts := []int{1 + rnd.Intn(8), 8, 1 + rnd.Intn(24), 1 + rnd.Intn(len(want))}
		for _, cut := range cuts {
			if cut > len(want) {
				continue
			}
			var detail string
			if !guardFor(10*time.Second, func() { detail = cutPass(want, cut, ops, vec, p) }) {
				detail = fmt.Sprintf("cut %d: the read program did not terminate", cut)
			}
			if detail != "" {
				ev["cutOK"] = false
				ev["firstBad"] = detail
				break
			}
		}
	}
	return ev
}

func guardFor(d time.Duration, f func()) bool {
	done := make(chan struct{})
	go func() {
		defer close(done)
		f()
	}()
	select {
	case <-done:
		return true
	case <-time.After(d):
		atomic.AddInt32(&hangCount, 1)
		return false
	}
}

// cutPass reads the program from the image without its last `cut` bytes; returns "" when the end of the data is met as required
func cutPass(want []byte, cut int, ops []bitOp, vec *bitVec, p bitProg) (detail string) {
	data := want[:len(want)-cut]
	availBits := 8 * len(data)
	src := &fio.Source{Data: data, Chunks: p.Chunks}
	ibs, err := bitstream.NewDefaultInputBitStream(src, p.BufR)
	if err != nil {
		return ""
	}
	off := 0
	k := 0
	crossing := false
	defer func() {
		if q := recover(); q != nil {
			if !crossing {
				detail = fmt.Sprintf("cut %d: read op %d (%s %d) at bit %d panics (%v) although %d bits are available", cut, k, ops[k].Op, ops[k].N, off, q, availBits)
			}
		}
	}()
	for k = 0; k < len(ops); k++ {
		op := ops[k]
		size := op.N
		if op.Op == "bit" {
			size = 1
		}
		crossing = off+size > availBits
		ok := true
		switch op.Op {
		case "bit":
			v := uint64(ibs.ReadBit())
			ok = crossing || v == vec.get(off, 1)
		case "bits":
			v := ibs.ReadBits(uint(op.N))
			ok = crossing || v == vec.get(off, op.N)
		case "array":
			buf := make([]byte, (op.N+7)/8)
			ibs.ReadArray(buf, uint(op.N))
			if !crossing {
				exp := vec.bytes(off, op.N)
				if op.N%8 != 0 {
					buf[len(buf)-1] &= byte(0xFF) << uint(8-op.N%8)
				}
				ok = string(buf) == string(exp)
			}
		}
		if crossing {
			return fmt.Sprintf("cut %d: read op %d (%s %d) at bit %d returned although only %d bits exist", cut, k, op.Op, op.N, off, availBits)
		}
		if !ok {
			return fmt.Sprintf("cut %d: read op %d (%s %d) at bit %d returned wrong bits before the cut", cut, k, op.Op, op.N, off)
		}
		off += size
	}
	return ""
}

func randomProg(rnd *rand.Rand, id int, thorough bool) bitProg {
	bufs := []uint{1024, 1024, 2048, 4096, 16384}
	if thorough {
		bufs = append(bufs, 65536, 262144)
	}
	p := bitProg{ID: id, BufW: pick(rnd, bufs), BufR: pick(rnd, bufs), Seed: rnd.Int63(), Src: "random"}
	p.Chunks = pick(rnd, [][]int{nil, nil, {1}, {7}, {8}, {9}, {13, 5, 64}, {1000}, {1023, 1}, {3, 100000}})
	nops := 1 + rnd.Intn(60)
	total := 0
	for i := 0; i < nops && total < 8*5*int(p.BufW); i++ {
		var op bitOp
		switch rnd.Intn(10) {
		case 0, 1:
			op = bitOp{"bit", 1}
		case 2, 3, 4, 5:
			op = bitOp{"bits", pick(rnd, []int{1, 2, 7, 8, 9, 15, 16, 31, 32, 33, 63, 64, 1 + rnd.Intn(64)})}
		default:
			// lengths around the buffer boundaries and the internal thresholds (8 and 32 bytes, 64 and 256 bits)
			b := int(p.BufW) * 8
			op = bitOp{"array", pick(rnd, []int{0, 1, 7, 8, 9, 63, 64, 65, 255, 256, 257, 511, 512, 1000, b - 64, b - 8, b, b + 8, b + 64, b/2 + 3, 2*b + 1,
				rnd.Intn(3 * b), b - 256 - rnd.Intn(16), b - rnd.Intn(600)})}
			if op.N < 0 {
				op.N = 0
			}
		}
		p.Ops = append(p.Ops, op)
		total += op.N
	}
	return p
}

func cmdBits(args []string) int {
	fs := flag.NewFlagSet("bits", flag.ExitOnError)
	n := fs.Int("n", 500, "random programs")
	seed := fs.Int64("seed", 1, "seed")
	progs := fs.String("progs", "", "file with model programs (ndjson)")
	out := fs.String("out", "trace.ndjson", "trace")
	sum := fs.String("sum", "", "summary")
	thorough := fs.Bool("thorough", false, "thorough")
	fs.Parse(args)
	rnd := rand.New(rand.NewSource(*seed*2713 + 11))
	var all []bitProg
	if *progs != "" {
		f, err := os.Open(*progs)
		if err != nil {
			fmt.Fprintln(os.Stderr, err)
			return 2
		}
		sc := bufio.NewScanner(f)
		sc.Buffer(make([]byte, 1<<20), 1<<26)
		for sc.Scan() {
			var p bitProg
			if json.Unmarshal(sc.Bytes(), &p) != nil {
				return 2
			}
			if p.Seed == 0 {
				p.Seed = rnd.Int63()
			} else {
				rnd.Int63()
			}
			p.ID = len(all)
			all = append(all, p)
		}
		f.Close()
	}
	for i := 0; i < *n; i++ {
		all = append(all, randomProg(rnd, len(all), *thorough))
	}
	evs := make([]tr.Ev, len(all))
	var wg sync.WaitGroup
	sem := make(chan struct{}, 16)
	for i := range all {
		wg.Add(1)
		sem <- struct{}{}
		go func(i int) {
			defer wg.Done()
			defer func() { <-sem }()
			if !guard(func() { evs[i] = runBits(all[i]) }) {
				evs[i] = tr.Ev{"ev": "BITPROG", "id": all[i].ID, "src": all[i].Src, "bufW": all[i].BufW, "bufR": all[i].BufR, "fill": all[i].Fill, "nops": len(all[i].Ops),
					"sizes": []int{}, "wcount": []int{}, "rcount": []int{}, "wPanic": "hang", "rPanic": "", "image": false, "values": false,
					"closedRefusesW": false, "closedRefusesR": false, "closeErr": "", "firstBad": "the program did not terminate", "cutOK": true}
			}
			b, _ := json.Marshal(all[i])
			evs[i]["desc"] = string(b)
		}(i)
	}
	wg.Wait()
	// a case that did not return while many ran in parallel is repeated alone with a three times longer bound; only that counts
	rerunHungCases(evs, "wPanic", func(i int) tr.Ev { return runBits(all[i]) })
	w, err := tr.Open(*out)
	if err != nil {
		return 2
	}
	w.EmitAll(evs)
	w.Close()
	s := recSummary{ByMode: map[string]int{}}
	distinct := map[string]bool{}
	for i, p := range all {
		s.Runs++
		s.ByMode[p.Src]++
		if len(p.Ops) >= 2 {
			b, _ := json.Marshal(p.Ops)
			distinct[fmt.Sprintf("%d|%d|%v|%s", p.BufW, p.BufR, p.Chunks, b)] = true
		}
		if len(s.Samples) < 3 && i%101 == 7 {
			s.Samples = append(s.Samples, p)
		}
	}
	s.Distinct = len(distinct)
	s.Events = len(evs)
	b, _ := json.MarshalIndent(s, "", " ")
	if *sum != "" {
		os.WriteFile(*sum, b, 0644)
	}
	fmt.Println(string(b))
	return 0
}

func init() {
	commands["bits"] = cmdBits
}
