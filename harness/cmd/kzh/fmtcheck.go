package main

// Driver for the container part of C10: streams written by the CURRENT encoder are parsed by the independent parser
// (harness/kzfmt, written from specs/KzFormat.tla) and reported next to what the encoder logged through the hooks.

import (
	"flag"
	"fmt"
	"math/rand"
	"os"
	"strings"
	"sync"

	kio "github.com/flanglet/kanzi-go/v2/io"
	"kzverif/gen"
	"kzverif/hk"
	"kzverif/kz"
	"kzverif/kzfmt"
	"kzverif/tr"
)

func fmtEvents(k int, seed int64, thorough bool) []tr.Ev {
	rnd := rand.New(rand.NewSource(seed*9973 + int64(k)*31))
	run, data := planWriterRun("fmt", k, seed, thorough)
	run.W.Headerless = false
	run.W.SkipBlocks = false
	if run.W.Hint >= 1<<31 {
		run.W.Hint = int64(len(data))
	}
	_ = rnd
	rec := hk.NewRec(seed)
	rec.Digest = map[int]bool{}
	stream, err := kz.Compress(data, run.W, run.Parts, rec.Func())
	if err != nil {
		return nil
	}
	type hookInfo struct {
		written, post int64
		mode, skip    int
		blockLen      int64
	}
	hooks := map[int32]*hookInfo{}
	for _, e := range rec.Events() {
		switch e.Pt {
		case kio.VH_E_START:
			hooks[e.ID] = &hookInfo{blockLen: e.A}
		case kio.VH_E_LOCAL:
			if h := hooks[e.ID]; h != nil {
				h.written = e.A
				h.post = e.B & 0xFFFFFFFF
				h.mode = int((e.B >> 32) & 0xFF)
				h.skip = int((e.B >> 40) & 0xFF)
			}
		}
	}
	st, perr := kzfmt.Parse(stream, false, 0)
	h := st.H
	tnames := strings.Split(strings.ToUpper(run.W.Transform), "+")
	ntr := 0
	for _, n := range tnames {
		if n != "NONE" {
			ntr++
		}
	}
	if ntr == 0 {
		ntr = 1
	}
	hint := run.W.Hint
	if hint < 0 {
		hint = 0
	}
	evs := []tr.Ev{{"ev": "HDR", "parsed": perr == nil, "magic": int(kzfmt.GetBits(stream, 0, 32)), "version": h.Version, "ck": h.CkSize, "ckbits": int(run.W.Ck),
		"entropy": int(h.Entropy), "ename": strings.ToUpper(run.W.Entropy), "t": unpack48(h.Transform), "tnames": tnames, "bsz": h.BlockSize >> 4,
		"block": int(run.W.Block), "szMask": h.SzMask, "hint": int(hint), "size": int(h.OrigSize), "bits": h.Bits,
		"pad":     int(kzfmt.GetBits(stream, h.OffPad, 15)),
		"cksumOk": h.Checksum == kzfmt.HeaderChecksum(h.Version, h.CkSize, h.Entropy, h.Transform, h.BlockSize, h.SzMask, h.OrigSize),
		"cfg":     fmt.Sprintf("%s&%s B=%d n=%d", run.W.Transform, run.W.Entropy, run.W.Block, len(data))}}
	if perr != nil {
		evs[0]["perr"] = perr.Error()
	}
	for _, b := range st.Blocks {
		hi := hooks[int32(b.ID)]
		if hi == nil {
			hi = &hookInfo{written: -1}
		}
		evs = append(evs, tr.Ev{"ev": "BLK", "id": b.ID, "lw": b.LW, "lenBits": b.LenBits, "mode": int(b.Mode), "dataSize": b.DataSize, "preLen": b.PreLen,
			"hasSkip": b.HasSkip, "skip": int(b.SkipFlags), "hookWritten": int(hi.written), "hookPost": int(hi.post), "hookMode": hi.mode, "hookSkip": hi.skip,
			"blockLen": int(hi.blockLen), "ntransforms": ntr})
	}
	evs = append(evs, tr.Ev{"ev": "END", "found": st.EndBits > 0, "blocks": len(st.Blocks), "trailing": st.Total - st.EndBits})
	return evs
}

func cmdFmt(args []string) int {
	fs := flag.NewFlagSet("fmt", flag.ExitOnError)
	n := fs.Int("n", 200, "streams")
	seed := fs.Int64("seed", 1, "seed")
	out := fs.String("out", "trace.ndjson", "trace")
	thorough := fs.Bool("thorough", false, "thorough")
	fs.Parse(args)
	w, err := tr.Open(*out)
	if err != nil {
		return 2
	}
	var wg sync.WaitGroup
	sem := make(chan struct{}, 16)
	cnt := 0
	var mu sync.Mutex
	for k := 0; k < *n; k++ {
		wg.Add(1)
		sem <- struct{}{}
		go func(k int) {
			defer wg.Done()
			defer func() { <-sem }()
			_ = gen.Shapes
			if evs := fmtEvents(k, *seed, *thorough); evs != nil {
				w.EmitAll(evs)
				mu.Lock()
				cnt++
				mu.Unlock()
			}
		}(k)
	}
	wg.Wait()
	w.Close()
	fmt.Fprintln(os.Stdout, cnt)
	return 0
}

func init() {
	commands["fmt"] = cmdFmt
}
