package main

// Record-mode drivers for the Writer (and full round trips): events for specs/Trace_Writer.tla.

import (
	"encoding/json"
	"flag"
	"fmt"
	kanzi "github.com/flanglet/kanzi-go/v2"
	"math/rand"
	"os"
	"strings"
	"sync"
	"sync/atomic"
	"time"

	kio "github.com/flanglet/kanzi-go/v2/io"
	"kzverif/fio"
	"kzverif/gen"
	"kzverif/hk"
	"kzverif/kz"
	"kzverif/tr"
)

var transformNames = []string{"NONE", "BWT", "BWTS", "LZ", "RLT", "ZRLT", "MTFT", "RANK", "EXE", "TEXT", "ROLZ", "ROLZX",
	"SRT", "LZP", "MM", "LZX", "UTF", "PACK", "DNA"}
var entropyNames = []string{"NONE", "HUFFMAN", "FPAQ", "RANGE", "ANS0", "CM", "TPAQ", "ANS1", "TPAQX"}
var levelPresets = []string{"NONE&NONE", "LZX&NONE", "DNA+LZ&HUFFMAN", "TEXT+UTF+PACK+MM+LZX&HUFFMAN", "TEXT+UTF+EXE+PACK+MM+ROLZ&NONE",
	"TEXT+UTF+BWT+RANK+ZRLT&ANS0", "TEXT+UTF+BWT+SRT+ZRLT&FPAQ", "LZP+TEXT+UTF+BWT+LZP&CM", "EXE+RLT+TEXT+UTF+DNA&TPAQ", "EXE+RLT+TEXT+UTF+DNA&TPAQX"}

// chains whose stages consult the data type of the block (C04 groups on containers of files)
var magicChains = []string{"ROLZ&NONE", "TEXT+UTF+PACK+MM+LZX&HUFFMAN", "TEXT+UTF+EXE+PACK+MM+ROLZ&NONE", "ROLZX&ANS0", "TEXT&NONE", "EXE+RLT+TEXT+UTF+DNA&HUFFMAN",
	"MM+LZX&NONE", "PACK+UTF&ANS0"}

func slowEntropy(e string) bool { return e == "CM" || e == "TPAQ" || e == "TPAQX" }

type writerRun struct {
	Run      int      `json:"run"`
	Mode     string   `json:"mode"`
	Shape    string   `json:"shape"`
	Size     int      `json:"size"`
	W        kz.Cfg   `json:"w"`
	RJobs    uint     `json:"rjobs"`
	Parts    []int    `json:"parts,omitempty"`
	Perturb  int      `json:"perturb"`
	Seed     int64    `json:"seed"`
	FailAt   []int    `json:"failAt,omitempty"` // sink call indices that fail
	FailFrom int      `json:"failFrom,omitempty"`
	Partial  bool     `json:"partial,omitempty"`
	After    string   `json:"after,omitempty"` // caller behaviour after an error: close | retry | continue
	Prog     []string `json:"prog,omitempty"`  // API program (c17)
	Key      string   `json:"key,omitempty"`
}

func encodeHookEvent(e hk.Ev, want func(id int32, n int) string) tr.Ev {
	switch e.Pt {
	case kio.VH_W_SPAWN:
		return tr.Ev{"ev": "W_SPAWN", "first": int(e.ID), "n": e.A, "avail": e.B}
	case kio.VH_W_JOIN:
		return tr.Ev{"ev": "W_JOIN", "counter": int(e.ID)}
	case kio.VH_E_START:
		return tr.Ev{"ev": "E_START", "id": int(e.ID), "len": e.A, "got": e.Dig, "want": want(e.ID, int(e.A))}
	case kio.VH_E_SEEN:
		return tr.Ev{"ev": "E_SEEN", "id": int(e.ID), "tok": e.A}
	case kio.VH_E_EMIT1:
		return tr.Ev{"ev": "E_REL", "id": int(e.ID)}
	case kio.VH_E_FIN0:
		return tr.Ev{"ev": "E_FIN0", "id": int(e.ID), "err": e.A}
	case kio.VH_E_FIN1:
		return tr.Ev{"ev": "E_FIN1", "id": int(e.ID), "counter": e.B}
	}
	return nil
}

// execWriterRun drives one Writer according to run and returns its trace events and the sink content.
func execWriterRun(run *writerRun, data []byte) ([]tr.Ev, []byte) {
	healthy := len(run.FailAt) == 0 && run.FailFrom == 0
	desc, _ := json.Marshal(run)
	evs := []tr.Ev{{"ev": "Reset", "run": run.Run, "healthy": healthy, "desc": string(desc)}}
	rec := hk.NewRec(run.Seed)
	rec.Perturb = run.Perturb
	rec.Digest = map[int]bool{kio.VH_E_START: true}
	sink := &fio.Sink{Fail: map[int]bool{}, FailFrom: run.FailFrom, Partial: run.Partial}
	for _, k := range run.FailAt {
		sink.Fail[k] = true
	}
	var sinkEvs []tr.Ev
	var smu sync.Mutex
	sink.OnCall = func(c fio.Call) {
		smu.Lock()
		if c.Op == "write" {
			sinkEvs = append(sinkEvs, tr.Ev{"ev": "S_WRITE", "k": c.K, "n": c.N, "ok": c.OK})
		} else {
			sinkEvs = append(sinkEvs, tr.Ev{"ev": "S_CLOSE", "k": c.K, "n": 0, "ok": c.OK})
		}
		smu.Unlock()
	}
	ctx := run.W.Ctx()
	ctx["verifHook"] = rec.Func()
	var w *kio.Writer
	var err error
	owned := true
	if run.W.API == "debug" {
		// a caller-supplied bit stream (here a Debug stream around a default one): the Writer does not own the sink
		var obs kanzi.OutputBitStream
		if obs, err = kz.DebugOut(sink); err == nil {
			w, err = kio.NewWriterWithCtx2(obs, ctx)
		}
		owned = false
	} else {
		w, err = kio.NewWriterWithCtx(sink, ctx)
	}
	if err != nil {
		evs = append(evs, tr.Ev{"ev": "Note", "what": "writer construction failed: " + err.Error()})
		return evs, nil
	}
	written := 0  // bytes handed to Write and consumed
	accepted := 0 // bytes covered by successful Writes
	B := int(run.W.Block)
	want := func(id int32, n int) string {
		lo := (int(id) - 1) * B
		if lo < 0 || lo+n > len(data) {
			return "overflow"
		}
		return tr.Dig(data[lo : lo+n])
	}
	flush := func() {
		// sink events first: a sink call made by a task happens before the task's later hook events are
		// relevant to the predicates (only their relative order to API returns matters)
		smu.Lock()
		evs = append(evs, sinkEvs...)
		sinkEvs = nil
		smu.Unlock()
		for _, e := range rec.Events() {
			if te := encodeHookEvent(e, want); te != nil {
				evs = append(evs, te)
			}
		}
		rec.Reset()
	}
	hung := false
	doWrite := func(n int) (int, error, bool) {
		if hung {
			return 0, errHung, false
		}
		if n > len(data)-written {
			n = len(data) - written
		}
		buf := data[written : written+n]
		var m int
		var e error
		panicked := false
		if !guardBytes(len(data), func() {
			defer func() {
				if p := recover(); p != nil {
					panicked = true
					e = fmt.Errorf("panic: %v", p)
				}
			}()
			m, e = w.Write(buf)
		}) {
			flush()
			evs = append(evs, tr.Ev{"ev": "Hang", "op": "Write", "len": n})
			hung = true
			return 0, errHung, false
		}
		if m > 0 && m <= n {
			written += m
		}
		if e == nil && m == n {
			accepted = written
		}
		flush()
		evs = append(evs, tr.Ev{"ev": "Write", "len": n, "n": m, "err": kz.Class(e), "panic": panicked, "msg": errText(e)})
		return m, e, panicked
	}
	doClose := func() error {
		var e error
		panicked := false
		if hung {
			return errHung
		}
		if !guardBytes(len(data), func() {
			defer func() {
				if p := recover(); p != nil {
					panicked = true
					e = fmt.Errorf("panic: %v", p)
				}
			}()
			e = w.Close()
		}) {
			flush()
			evs = append(evs, tr.Ev{"ev": "Hang", "op": "Close", "len": 0})
			hung = true
			return errHung
		}
		flush()
		dec := "na"
		decmsg := ""
		if e == nil {
			out, derr := kz.Decompress(sink.Data, kz.RCfg{Jobs: run.RJobs, W: &run.W, OrigSize: int64(accepted)}, nil, nil, nil, accepted+(1<<20))
			if derr != nil {
				dec = "fail"
				decmsg = derr.Error()
			} else {
				dec = tr.Dig(out)
			}
		}
		evs = append(evs, tr.Ev{"ev": "Close", "err": kz.Class(e), "panic": panicked, "sinkLen": len(sink.Data), "sinkClosed": sink.Closed,
			"owned": owned, "acc": tr.Dig(data[:accepted]), "dec": dec, "msg": errText(e), "decmsg": decmsg})
		return e
	}
	doGetWritten := func() {
		if hung {
			return
		}
		evs = append(evs, tr.Ev{"ev": "GetWritten", "v": int(w.GetWritten()), "sinkLen": len(sink.Data)})
	}

	if len(run.Prog) > 0 {
		// explicit API program (C17)
		for _, op := range run.Prog {
			switch {
			case op == "C":
				doClose()
			case op == "G":
				doGetWritten()
			case strings.HasPrefix(op, "W"):
				var n int
				fmt.Sscan(op[1:], &n)
				doWrite(n)
			}
		}
		return evs, sink.Data
	}

	// write the data in the requested partition, then close; react to errors as a caller would
	failed := false
	pi := 0
	for written < len(data) && !failed {
		n := len(data) - written
		if len(run.Parts) > 0 {
			n = run.Parts[pi%len(run.Parts)]
			pi++
		}
		_, e, _ := doWrite(n)
		if e != nil {
			failed = true
		}
		if n == 0 && len(run.Parts) == 1 {
			break
		}
	}
	if failed && run.After == "continue" {
		for k := 0; k < 3 && written < len(data); k++ {
			doWrite(min(4096, len(data)-written))
		}
	}
	e := doClose()
	if e != nil && run.After != "close" {
		e = doClose()
		if e != nil {
			doClose()
		}
	}
	doGetWritten()
	if e == nil {
		// idempotence and refusal after close
		doClose()
		doWrite(min(10, len(data)))
		doGetWritten()
	}
	if e != nil || failed || written < len(data) {
		// no stream was reported complete: nothing to compare with the streams of other runs
		return evs, nil
	}
	return evs, sink.Data
}

var errHung = fmt.Errorf("call did not return (watchdog)")

// guard runs f and reports whether it returned within the watchdog delay. A call that never returns is a violation
// of C07/C03 (every call terminates); its goroutines are abandoned and die with the process.
func guard(f func()) bool { return guardBytes(0, f) }

// guardBytes: the bound grows with the amount of data the call has to process (the slowest codecs manage a few hundred KB/s
// on a busy machine): 45 s + 1 s per 100 KB
func guardBytes(n int, f func()) bool {
	done := make(chan struct{})
	go func() {
		defer close(done)
		f()
	}()
	select {
	case <-done:
		return true
	case <-time.After(watchdogDelay + time.Duration(n/100000)*time.Second):
		atomic.AddInt32(&hangCount, 1)
		return false
	}
}

var watchdogDelay = 45 * time.Second

// rerunHungCases: evs[i][field] == "hang" marks a case whose call did not return; repeat up to 8 of them alone
func rerunHungCases(evs []tr.Ev, field string, run func(i int) tr.Ev) {
	saved := watchdogDelay
	defer func() { watchdogDelay = saved }()
	n := 0
	for i := range evs {
		if v, _ := evs[i][field].(string); v != "hang" || n >= 8 {
			continue
		}
		n++
		watchdogDelay = 3 * saved
		var e tr.Ev
		if guard(func() { e = run(i) }) {
			if d, ok := evs[i]["desc"]; ok {
				e["desc"] = d
			}
			e["rerunAlone"] = true
			evs[i] = e
		}
	}
}

func hasHang(evs []tr.Ev) bool {
	for _, e := range evs {
		if e["ev"] == "Hang" {
			return true
		}
	}
	return false
}

// rerunAlone repeats, one at a time and with a three times longer bound, the runs in which a call did not return while the
// machine was busy with many parallel runs; what these repetitions record is what the trace gets (a genuine hang hangs again)
func rerunAlone(retry []func() []tr.Ev, w *tr.W, s *recSummary) {
	if len(retry) == 0 {
		return
	}
	saved := watchdogDelay
	watchdogDelay = 3 * saved
	atomic.StoreInt32(&hangCount, 0)
	for i, f := range retry {
		if i >= 8 {
			break
		}
		evs := f()
		w.EmitAll(evs)
		s.Runs++
		s.Events += len(evs)
		s.HangsRerun++
	}
	watchdogDelay = saved
}

// number of calls that did not return so far: after a few of them the drivers stop starting new runs
// (every further hang would cost a full watchdog delay)
var hangCount int32

func errText(e error) string {
	if e == nil {
		return ""
	}
	t := e.Error()
	if len(t) > 200 {
		t = t[:200]
	}
	return t
}

func randomChain(rnd *rand.Rand) string {
	n := 1 + rnd.Intn(3)
	if rnd.Intn(5) == 0 {
		n = 4 + rnd.Intn(5)
	}
	var parts []string
	for i := 0; i < n; i++ {
		parts = append(parts, pick(rnd, transformNames))
	}
	return strings.Join(parts, "+")
}

var partsMenu = [][]int{nil, nil, {1}, {777}, {1024}, {1023, 1, 1025}, {65536}, {5, 100000}, {4096}, {0, 300, 0}, {16, 15, 17}}

// planWriterRun draws one configuration for the c01 / c04 / c06w modes
func planWriterRun(mode string, k int, seed int64, thorough bool) (*writerRun, []byte) {
	rnd := rand.New(rand.NewSource(seed*999983 + int64(k)*104729))
	run := &writerRun{Run: k, Mode: mode, Seed: seed*37 + int64(k), After: "close"}
	var tf, en string
	switch rnd.Intn(4) {
	case 0:
		p := strings.Split(pick(rnd, levelPresets), "&")
		tf, en = p[0], p[1]
	case 1:
		tf, en = pick(rnd, transformNames), pick(rnd, entropyNames)
	default:
		tf, en = randomChain(rnd), pick(rnd, entropyNames)
	}
	blocks := []uint{1024, 1040, 2048, 4096, 16384, 65536, 65536, 262144}
	if thorough {
		blocks = append(blocks, 1<<20, 4<<20+16)
	}
	B := pick(rnd, blocks)
	nb := rnd.Intn(7)
	maxBytes := 600000
	if slowEntropy(en) {
		maxBytes = 60000
		if thorough {
			maxBytes = 200000
		}
	}
	if thorough {
		maxBytes *= 4
	}
	size := 0
	switch rnd.Intn(8) {
	case 0:
		size = rnd.Intn(40)
	default:
		size = nb*int(B) + rnd.Intn(int(B))
		if rnd.Intn(5) == 0 {
			size = nb * int(B)
		}
	}
	if size > maxBytes {
		size = maxBytes - rnd.Intn(1000)
	}
	run.Shape = pick(rnd, gen.Shapes)
	run.Size = size
	hint := int64(-1)
	switch rnd.Intn(7) {
	case 0:
		hint = 0
	case 1, 2:
		hint = int64(size)
	case 3:
		hint = int64(size / 2)
	case 4:
		hint = int64(B)
	case 5:
		hint = int64(size)*3 + 5
	}
	run.W = kz.Cfg{Transform: tf, Entropy: en, Block: B, Jobs: pick(rnd, []uint{1, 1, 2, 3, 4, 5, 8, 16, 64}), Ck: pick(rnd, []uint{0, 32, 64}),
		Hint: hint, Headerless: rnd.Intn(10) == 0, SkipBlocks: rnd.Intn(8) == 0}
	run.RJobs = pick(rnd, []uint{1, 2, 3, 4, 8, 64})
	if mode == "c01" && size <= 150000 {
		// the other public entry points: positional constructors on the reading side, caller-supplied (Debug) bit streams on both
		run.W.API = pick(rnd, []string{"", "", "", "", "", "positional", "debug", "debug"})
	}
	if mode == "c07w" {
		pair := pick(rnd, fastPairs)
		run.W.Transform, run.W.Entropy = pair[0], pair[1]
		run.W.Jobs = pick(rnd, []uint{2, 3, 4, 8, 16, 64})
		run.Perturb = pick(rnd, []int{2, 3, 5})
		if size > 20*int(B) {
			size = 20*int(B) - rnd.Intn(int(B))
			run.Size = size
		}
	}
	if mode == "c01cfg" {
		// configurations at and beyond the limits of validity: either rejected by the constructor or fully working
		switch rnd.Intn(6) {
		case 0:
			run.W.Block = pick(rnd, []uint{0, 16, 1000, 1008, 1023, 1024, 1025, 1032, 1040, 2056, 65552, 1<<20 + 16})
		case 1:
			run.W.Jobs = pick(rnd, []uint{0, 1, 63, 64, 65, 1000})
		case 2:
			run.W.Ck = pick(rnd, []uint{0, 1, 16, 32, 33, 64, 128})
		case 3:
			run.W.Transform = pick(rnd, []string{"", "FOO", "NONE+", "+LZ", "LZ+FOO", "LZ++LZ", "BWT+BWT+BWT+BWT+BWT+BWT+BWT+BWT+BWT", "lz", "Text+Utf", "none", "NONE+NONE+LZ", "RLT+NONE+NONE+NONE+NONE+NONE+NONE+ZRLT"})
		case 4:
			run.W.Entropy = pick(rnd, []string{"", "FOO", "huffman", "Ans0", "PAQ", "NONE", "TPAQX "})
		case 5:
			run.W.Hint = pick(rnd, []int64{-5, 1, 1 << 47, 1 << 48, 1<<48 + 1, 1 << 62})
		}
		if size > 100000 {
			size = 100000
			run.Size = size
		}
		run.W.Headerless = false
	}
	run.Parts = pick(rnd, partsMenu)
	if len(run.Parts) > 0 && run.Parts[0] < 700 && size > 30000 {
		// keep the number of API events reasonable
		run.Parts = []int{run.Parts[0], 70001, 3}
	}
	run.Perturb = pick(rnd, []int{0, 0, 3, 8})
	return run, gen.Make(run.Shape, run.Seed, size)
}

func cmdRecWriter(args []string) int {
	fs := flag.NewFlagSet("rec-writer", flag.ExitOnError)
	mode := fs.String("mode", "c01", "driver mode")
	n := fs.Int("n", 100, "number of runs")
	seed := fs.Int64("seed", 1, "seed")
	out := fs.String("out", "trace.ndjson", "trace file")
	sum := fs.String("sum", "", "summary file")
	thorough := fs.Bool("thorough", false, "thorough tier")
	par := fs.Int("par", 8, "parallel runs")
	fs.Parse(args)

	w, err := tr.Open(*out)
	if err != nil {
		fmt.Fprintln(os.Stderr, err)
		return 2
	}
	s := recSummary{ByMode: map[string]int{}}
	var mu sync.Mutex
	distinct := map[string]bool{}
	var wg sync.WaitGroup
	sem := make(chan struct{}, *par)

	type wcase = wcaseT
	var retry []func() []tr.Ev
	var gens []func() []wcase
	switch *mode {
	case "c04":
		gens = enumC04(*n, *seed, *thorough)
	case "c01m":
		gens = enumC01m(*seed, *thorough)
	case "c08":
		gens = enumC08(*n, *seed, *thorough)
	case "c17":
		gens = enumC17(*n, *seed, *thorough)
	default:
		for k := 0; k < *n; k++ {
			k := k
			gens = append(gens, func() []wcase {
				run, data := planWriterRun(*mode, k, *seed, *thorough)
				return []wcase{{run, data}}
			})
		}
	}
	for k := range gens {
		wg.Add(1)
		sem <- struct{}{}
		go func(k int) {
			defer wg.Done()
			defer func() { <-sem }()
			if atomic.LoadInt32(&hangCount) >= 6 {
				return
			}
			for _, c := range gens[k]() {
				evs, sinkData := execWriterRun(c.run, c.data)
				if hasHang(evs) {
					c := c
					mu.Lock()
					retry = append(retry, func() []tr.Ev {
						e2, sd := execWriterRun(c.run, c.data)
						if c.run.Key != "" && sd != nil {
							e2 = append(e2, tr.Ev{"ev": "Out", "key": c.run.Key, "dig": tr.Dig(sd)})
						}
						return e2
					})
					mu.Unlock()
					continue
				}
				if c.run.Key != "" && sinkData != nil {
					evs = append(evs, tr.Ev{"ev": "Out", "key": c.run.Key, "dig": tr.Dig(sinkData)})
				}
				// a group of runs sharing a key must stay together and in order: emit per case but under one lock is
				// not needed because the key -> digest map of the trace spec is global to the trace
				w.EmitAll(evs)
				mu.Lock()
				s.Runs++
				s.Events += len(evs)
				s.ByMode[c.run.Mode]++
				key := fmt.Sprintf("%s|%s|%d|%d|%d|%d|%v|%v|%v|%s|%v", c.run.W.Transform, c.run.W.Entropy, c.run.W.Block, c.run.W.Jobs, c.run.W.Ck, c.run.W.Hint, c.run.Parts, c.run.FailAt, c.run.FailFrom, c.run.After, c.run.Prog)
				if c.run.Size > 0 {
					distinct[key+c.run.Shape] = true
				}
				if len(s.Samples) < 5 {
					s.Samples = append(s.Samples, c.run)
				}
				mu.Unlock()
			}
		}(k)
	}
	wg.Wait()
	rerunAlone(retry, w, &s)
	w.Close()
	s.Distinct = len(distinct)
	b, _ := json.MarshalIndent(s, "", " ")
	if *sum != "" {
		os.WriteFile(*sum, b, 0644)
	}
	fmt.Println(string(b))
	return 0
}

type wcaseT = struct {
	run  *writerRun
	data []byte
}

// enumC04: for each (data, parameters) several executions that must produce identical streams:
// jobs in {1,2,3,4,8,64}, several Write partitions, repeated runs, perturbed schedules.
func enumC04(n int, seed int64, thorough bool) []func() []wcaseT {
	var gens []func() []wcaseT
	for g := 0; g < n; g++ {
		g := g
		gens = append(gens, func() []wcaseT {
			base, data := planWriterRun("c04", g, seed, thorough)
			base.W.Headerless = false
			if g < len(transformNames) {
				// every transform on full compressible blocks followed by a short incompressible one: accept / decline decisions
				// that depend on buffer sizes (which depend on the slot, hence on the job count) would show
				base.W.Transform = transformNames[g]
				base.W.Entropy = []string{"NONE", "HUFFMAN", "ANS0"}[g%3]
				base.W.Block = 65536
				base.W.SkipBlocks = false // the incompressible tail must reach the transform
				base.Shape = "tailrandom"
				base.Size = 3*65536 + 20000 + 16*g
				base.W.Hint = []int64{-1, int64(base.Size)}[g%2]
				data = gen.Make(base.Shape, base.Seed, base.Size)
			}
			if m := g - len(transformNames); m >= 0 && m < len(magicChains) {
				// a container of files: every block starts with a file signature, chains whose stages consult the data type.
				// The data type a block is given must not depend on which task encodes it or on what the other tasks have done.
				p := strings.Split(magicChains[m], "&")
				base.W.Transform, base.W.Entropy = p[0], p[1]
				base.W.Block = []uint{4096, 16384, 1024}[m%3]
				base.W.SkipBlocks = false
				base.Shape = []string{"magictext", "magicmix"}[m%2]
				base.Size = 13*int(base.W.Block) + 777 + 16*m
				base.W.Hint = []int64{-1, int64(base.Size)}[m%2]
				data = gen.Make(base.Shape, base.Seed, base.Size)
			}
			var out []wcaseT
			jobsList := []uint{1, 2, 3, 4, 8, 64}
			k := 0
			for _, jobs := range jobsList {
				for rep := 0; rep < 2; rep++ {
					r := *base
					r.Run = g*100 + k
					r.W.Jobs = jobs
					r.Seed = base.Seed + int64(k)
					r.Parts = partsMenu[(g+k)%len(partsMenu)]
					if len(r.Parts) > 0 && r.Parts[0] < 700 && r.Size > 30000 {
						// keep the number of API events reasonable: a few small writes, then large ones
						r.Parts = []int{r.Parts[0], 70001, 3}
					}
					r.Perturb = []int{0, 2, 6}[(k+rep)%3]
					// the key identifies data and every parameter except jobs / partition / schedule
					r.Key = fmt.Sprintf("g%d|%s|%s|%d|%d|%d|%v|%s|%d", g, r.W.Transform, r.W.Entropy, r.W.Block, r.W.Ck, r.W.Hint, r.W.SkipBlocks, r.Shape, r.Size)
					rr := r
					out = append(out, wcaseT{&rr, data})
					k++
				}
			}
			return out
		})
	}
	return gens
}

// enumC01m: the matrix entropy codec x data shape with the block reaching the entropy codec untouched (transform NONE): every
// codec meets every shape (in particular the non-stationary ones) at a size of several internal chunks
func enumC01m(seed int64, thorough bool) []func() []wcaseT {
	var gens []func() []wcaseT
	for ei, en := range entropyNames {
		for si, shape := range gen.Shapes {
			ei, en, si, shape := ei, en, si, shape
			gens = append(gens, func() []wcaseT {
				g := ei*len(gen.Shapes) + si
				run := &writerRun{Run: g, Mode: "c01m", Seed: seed*53 + int64(g), After: "close", Shape: shape}
				B := []uint{65536, 32768, 1 << 20}[(ei+si)%3]
				size := 2*65536 + 16384 + 1000 + 16*si
				if slowEntropy(en) && !thorough {
					size = 40000 + 16*si
				}
				run.Size = size
				run.W = kz.Cfg{Transform: "NONE", Entropy: en, Block: B, Jobs: []uint{1, 2, 4}[(ei+si)%3], Ck: []uint{0, 32, 64}[si%3], Hint: -1}
				run.RJobs = []uint{1, 3}[si%2]
				run.Parts = partsMenu[(ei+si)%len(partsMenu)]
				if len(run.Parts) > 0 && run.Parts[0] < 700 {
					run.Parts = []int{run.Parts[0], 70001, 3}
				}
				return []wcaseT{{run, gen.Make(shape, run.Seed, size)}}
			})
		}
	}
	// one block beyond 2^24 bytes: 24-bit offsets / addresses / distances inside the transforms (EXE addresses, LZ distances ...)
	// (BWT: 9 MiB in a 16 MiB block: the regime between 8 and 16 MiB of its inverse)
	gens = append(gens, func() []wcaseT {
		run := &writerRun{Run: 8999, Mode: "c01m", Seed: seed*61 + 8999, After: "close", Shape: "text"}
		run.Size = 9<<20 + 12345
		run.W = kz.Cfg{Transform: "BWT", Entropy: "NONE", Block: 16 << 20, Jobs: 1, Ck: 32, Hint: int64(run.Size)}
		run.RJobs = 4
		return []wcaseT{{run, gen.Make("text", run.Seed, run.Size)}}
	})
	bigT := []string{"EXE", "LZ", "LZX", "ROLZ"}
	if thorough {
		bigT = append(bigT, "LZP", "RLT", "ZRLT", "TEXT", "UTF", "PACK", "MM", "DNA", "ROLZX")
	}
	for bi, tf := range bigT {
		bi, tf := bi, tf
		gens = append(gens, func() []wcaseT {
			g := 9000 + bi
			shape := "text"
			if tf == "EXE" {
				shape = "x86"
			}
			run := &writerRun{Run: g, Mode: "c01m", Seed: seed*61 + int64(g), After: "close", Shape: shape}
			run.Size = 17<<20 + 4616 + 16*bi
			run.W = kz.Cfg{Transform: tf, Entropy: "NONE", Block: 32 << 20, Jobs: 1, Ck: 32, Hint: -1}
			run.RJobs = 1
			return []wcaseT{{run, gen.Make(shape, run.Seed, run.Size)}}
		})
	}
	// the boundary values of the LZ family (distances and literal runs around 2^16) through the stream API as well
	var bshapes []string
	for v := 65533; v <= 65538; v++ {
		bshapes = append(bshapes, fmt.Sprintf("look:%d", v), fmt.Sprintf("dist:%d", v))
	}
	for v := 65790; v <= 65800; v++ {
		bshapes = append(bshapes, fmt.Sprintf("litrun:%d", v))
	}
	for bi, shape := range bshapes {
		for ti, tf := range []string{"LZ", "LZX"} {
			bi, ti, tf, shape := bi, ti, tf, shape
			gens = append(gens, func() []wcaseT {
				g := 9500 + 2*bi + ti
				run := &writerRun{Run: g, Mode: "c01m", Seed: seed*67 + int64(g), After: "close", Shape: shape}
				run.Size = 400000
				if strings.HasPrefix(shape, "look") || strings.HasPrefix(shape, "dist") {
					run.Size = 100000 // the short-distance mode of the codecs (blocks below 256 KiB)
				}
				run.W = kz.Cfg{Transform: tf, Entropy: []string{"NONE", "HUFFMAN"}[(bi+ti)%2], Block: 1 << 20, Jobs: 1, Ck: []uint{0, 32}[bi%2], Hint: -1}
				run.RJobs = 1
				return []wcaseT{{run, gen.Make(shape, run.Seed, run.Size)}}
			})
		}
	}
	// ... and the matrix transform x data shape with entropy NONE on several blocks (block boundaries inside the data: state carried
	// from block to block, shapes whose blocks start / end in a particular way such as crlfsplit)
	for ti, tf := range transformNames {
		for si, shape := range gen.Shapes {
			ti, tf, si, shape := ti, tf, si, shape
			gens = append(gens, func() []wcaseT {
				g := 1000 + ti*len(gen.Shapes) + si
				run := &writerRun{Run: g, Mode: "c01m", Seed: seed*59 + int64(g), After: "close", Shape: shape}
				B := []uint{4096, 16384, 1024}[(ti+si)%3]
				size := 3*int(B) + int(B)/3 + 16*si
				run.Size = size
				run.W = kz.Cfg{Transform: tf, Entropy: []string{"NONE", "HUFFMAN", "FPAQ"}[(ti+2*si)%3], Block: B, Jobs: []uint{1, 2, 4}[(ti+si)%3], Ck: []uint{0, 32, 64}[si%3], Hint: -1}
				run.RJobs = []uint{1, 3}[si%2]
				data := gen.Make(shape, run.Seed, size)
				out := []wcaseT{{run, data}}
				if tf == "TEXT" {
					// the text transform exists in two variants selected by the entropy codec (NONE/ANS0/HUFFMAN/RANGE vs the others): both
					r2 := *run
					r2.Run = g + 5000
					r2.W.Entropy = map[string]string{"NONE": "FPAQ", "HUFFMAN": "FPAQ", "FPAQ": "ANS0"}[run.W.Entropy]
					out = append(out, wcaseT{&r2, data})
				}
				return out
			})
		}
	}
	return gens
}

// enumC08: fault at every k-th call of the sink, exhaustively over k, for a few streams
func enumC08(n int, seed int64, thorough bool) []func() []wcaseT {
	var gens []func() []wcaseT
	for g := 0; g < n; g++ {
		g := g
		gens = append(gens, func() []wcaseT {
			rnd := rand.New(rand.NewSource(seed*7 + int64(g)*131071))
			base := &writerRun{Mode: "c08", Seed: seed*41 + int64(g)}
			pair := fastPairs[rnd.Intn(10)]
			// data large enough to make the shared bitstream flush several times (its buffer is 256 KiB)
			B := pick(rnd, []uint{65536, 131072, 262144})
			size := 300000 + rnd.Intn(700000)
			base.Shape = pick(rnd, []string{"random", "text", "mixed", "exe"})
			if pair[0] != "NONE" || pair[1] != "NONE" {
				base.Shape = pick(rnd, []string{"random", "mixed"})
			}
			base.Size = size
			base.W = kz.Cfg{Transform: pair[0], Entropy: pair[1], Block: B, Jobs: uint(1 + rnd.Intn(4)), Ck: pick(rnd, []uint{0, 32}), Hint: -1, Headerless: g%3 == 1}
			base.RJobs = 2
			base.Parts = pick(rnd, [][]int{nil, {100000}, {65536}, {30000, 77777}})
			data := gen.Make(base.Shape, base.Seed, size)
			// fault-free run to count the sink calls
			// every run of the group that ends with a successful Close of all the data must have produced the bytes of the
			// fault-free run (C04: "every run"): the fault-free run comes first and defines the digest of the key
			base.Key = fmt.Sprintf("c08g%d|%s|%s|%d", g, base.W.Transform, base.W.Entropy, base.Size)
			probe := *base
			probe.Run = g * 1000
			_, _ = execWriterRun(&probe, data)
			sink := &fio.Sink{}
			ctx := base.W.Ctx()
			w, err := kio.NewWriterWithCtx(sink, ctx)
			if err != nil {
				return nil
			}
			kz.WriteAll(w, data, base.Parts)
			w.Close()
			calls := len(sink.Calls)
			var out []wcaseT
			pr := probe
			out = append(out, wcaseT{&pr, data})
			id := 0
			for k := 1; k <= calls; k++ {
				for _, variant := range []string{"once", "forever", "once-partial"} {
					for _, after := range []string{"close", "retry", "continue"} {
						if !thorough && (k+id)%2 == 1 && variant != "once" {
							id++
							continue
						}
						r := *base
						r.Run = g*1000 + id + 1
						id++
						r.After = after
						switch variant {
						case "once":
							r.FailAt = []int{k}
						case "once-partial":
							r.FailAt = []int{k}
							r.Partial = true
						case "forever":
							r.FailFrom = k
						}
						rr := r
						out = append(out, wcaseT{&rr, data})
					}
				}
			}
			if thorough {
				// double faults
				for k1 := 1; k1 <= calls; k1++ {
					for k2 := k1 + 1; k2 <= calls+1; k2++ {
						r := *base
						r.Run = g*1000 + id + 1
						id++
						r.After = []string{"retry", "continue"}[(k1+k2)%2]
						r.FailAt = []int{k1, k2}
						rr := r
						out = append(out, wcaseT{&rr, data})
					}
				}
			}
			return out
		})
	}
	// the end marker written by Close completes the last word of the bit stream buffer (256 KiB): stream lengths around that boundary
	// with a sink that rejects everything; the failure has to come back as an error of Write or Close
	gens = append(gens, func() []wcaseT {
		var out []wcaseT
		for i, size := 0, 262050; size <= 262120; i, size = i+1, size+1 {
			if !thorough && (size < 262070 || size > 262100) {
				continue
			}
			r := &writerRun{Mode: "c08", Seed: seed*41 + 977, Run: 900000 + i, Shape: "random", Size: size, RJobs: 1, After: "close", FailFrom: 1}
			r.W = kz.Cfg{Transform: "NONE", Entropy: "NONE", Block: 65536, Jobs: 1, Ck: 0, Hint: []int64{0, -1}[i%2]}
			r.Key = fmt.Sprintf("c08edge|%d|%d", size, r.W.Hint)
			out = append(out, wcaseT{r, gen.Make("random", r.Seed, size)})
			r2 := *r
			r2.Run += 500
			r2.W.Hint = []int64{-1, 0}[i%2]
			r2.Key = fmt.Sprintf("c08edge|%d|%d", size, r2.W.Hint)
			out = append(out, wcaseT{&r2, gen.Make("random", r.Seed, size)})
		}
		return out
	})
	return gens
}

// enumC17: random API programs over Write(len)/Close/GetWritten
func enumC17(n int, seed int64, thorough bool) []func() []wcaseT {
	var gens []func() []wcaseT
	for g := 0; g < n; g++ {
		g := g
		gens = append(gens, func() []wcaseT {
			rnd := rand.New(rand.NewSource(seed*13 + int64(g)*8191))
			B := pick(rnd, []uint{1024, 2048, 4096})
			pair := fastPairs[rnd.Intn(8)]
			run := &writerRun{Run: g, Mode: "c17", Seed: seed*43 + int64(g), Shape: pick(rnd, gen.Shapes)}
			run.W = kz.Cfg{Transform: pair[0], Entropy: pair[1], Block: B, Jobs: uint(1 + rnd.Intn(4)), Ck: pick(rnd, []uint{0, 32, 64}), Hint: -1}
			run.RJobs = uint(1 + rnd.Intn(4))
			lens := []int{0, 1, int(B) - 1, int(B), int(B) + 1, 3 * int(B), 17, 2*int(B) + 5}
			if g%7 == 3 {
				// a block larger than the smallest input buffer (256 KiB), filled by several calls
				B = 1 << 20
				run.W.Block = B
				lens = []int{0, 1, 100000, 262144, 262145, 300000, 400000, 17}
			}
			total := 0
			np := 1 + rnd.Intn(10)
			closed := false
			for i := 0; i < np; i++ {
				switch r := rnd.Intn(10); {
				case r < 6:
					l := pick(rnd, lens)
					run.Prog = append(run.Prog, fmt.Sprintf("W%d", l))
					if !closed {
						total += l
					}
				case r < 8:
					run.Prog = append(run.Prog, "G")
				default:
					run.Prog = append(run.Prog, "C")
					closed = true
				}
			}
			run.Prog = append(run.Prog, "C", "G", "C", "W5", "G")
			if g%3 == 2 {
				// a transient sink failure somewhere in the program: the lifecycle rules hold for the attempts that follow
				run.FailAt = []int{1 + rnd.Intn(4)}
				// ... every other one a partial write: the sink takes half of the bytes and reports an error
				run.Partial = g%6 == 5
				run.Prog = append(run.Prog, "C", "G")
			}
			run.Size = total + 64
			if g%7 == 3 || g%5 == 1 {
				// the declared input size is only a hint: exact, absent, too small, too large
				run.W.Hint = pick(rnd, []int64{0, 1, 1000, int64(total / 3), int64(total) - 1, int64(total), int64(total) + 7, 300000, 4 * int64(total)})
				if run.W.Hint < 0 {
					run.W.Hint = 0
				}
			}
			return []wcaseT{{run, gen.Make(run.Shape, run.Seed, run.Size)}}
		})
	}
	return gens
}

func init() {
	commands["rec-writer"] = cmdRecWriter
}
