package main

// Replay of KzReader behaviours (TLC state graph paths) on the real Reader through blocking gates.

import (
	"bufio"
	"bytes"
	"encoding/json"
	"fmt"
	"os"
	"sync"
	"sync/atomic"
	"time"

	kio "github.com/flanglet/kanzi-go/v2/io"
	"kzverif/fio"
	"kzverif/gen"
	"kzverif/hk"
	"kzverif/kz"
	"kzverif/kzfmt"
)

type rStep struct {
	A string `json:"a"`
	X []int  `json:"x"`
}

type rExp struct {
	Counter    int               `json:"counter"`
	Rpc        string            `json:"rpc"`
	OutLen     int               `json:"outlen"`
	Ret        map[string]any    `json:"ret"`
	Tpc        map[string]string `json:"tpc"`
	BatchFirst int               `json:"batchFirst"`
	ErrSeen    bool              `json:"errSeen"`
	EofSeen    bool              `json:"eofSeen"`
}

type rCfg struct {
	Jobs       int      `json:"Jobs"`
	B          int      `json:"B"`
	Kinds      []string `json:"Kinds"`
	LastSz     int      `json:"LastSz"`
	HintBlocks int      `json:"HintBlocks"`
	From       int      `json:"From"`
	To         int      `json:"To"`
}

type rScenario struct {
	Sid   string  `json:"sid"`
	Cfg   rCfg    `json:"cfg"`
	Init  rExp    `json:"init"`
	Steps []rStep `json:"steps"`
	Exp   []rExp  `json:"exp"`
}

type rResult struct {
	Sid     string   `json:"sid"`
	Status  string   `json:"status"` // match | violation | drift | inconclusive
	Pred    string   `json:"pred,omitempty"`
	Detail  string   `json:"detail,omitempty"`
	Step    int      `json:"step"`
	Steps   int      `json:"steps"`
	Events  []string `json:"events,omitempty"`
	TaskOps int      `json:"taskOps"`
}

// buildWire builds a real stream realising the abstract wire of the model.
func buildWire(c rCfg, realB int, seed int64) (stream []byte, original []byte, expected []byte, err error) {
	S := realB / c.B
	nData := 0
	for _, k := range c.Kinds {
		if k != "eos" {
			nData++
		}
	}
	size := 0
	if nData > 0 {
		size = (nData-1)*realB + c.LastSz*S
	}
	original = gen.Make("text", seed, size)
	hint := int64(0)
	if c.HintBlocks > 0 {
		hint = int64(c.HintBlocks) * int64(realB)
	}
	// block checksums: needed for the "crc" kind (damage that only a checksum can see); otherwise 0 / 32 / 64 in turn, so that
	// the failures of kind "fail" are met with and without the safety net of a checksum
	ck := uint(32)
	hasCrc := false
	for _, k := range c.Kinds {
		hasCrc = hasCrc || k == "crc"
	}
	if hasCrc {
		ck = []uint{32, 64}[int(seed&1)]
	} else {
		ck = []uint{0, 32, 64, 0}[int(seed&3)]
	}
	w := kz.Cfg{Transform: "NONE", Entropy: "NONE", Block: uint(realB), Jobs: 1, Ck: ck, Hint: hint}
	stream, err = kz.Compress(original, w, nil, nil)
	if err != nil {
		return
	}
	st, perr := kzfmt.Parse(stream, false, 0)
	if perr != nil {
		err = perr
		return
	}
	if len(st.Blocks) != nData {
		err = fmt.Errorf("wire has %d blocks, expected %d", len(st.Blocks), nData)
		return
	}
	firstBad := -1
	for i, k := range c.Kinds {
		if k == "eos" {
			break
		}
		b := st.Blocks[i]
		switch k {
		case "crc":
			pos := b.OffEntropy + 8*7 + 3
			if pos >= b.Payload+b.LenBits {
				pos = b.OffEntropy + 1
			}
			kzfmt.SetBits(stream, pos, 1, 1^kzfmt.GetBits(stream, pos, 1))
		case "fail":
			// a block that its task must report as failed whatever the checksum setting: a length field that no block can have
			// (zero, or larger than any block of the declared size may become)
			if (seed>>2)&1 == 0 {
				kzfmt.SetBits(stream, b.OffPreLen, 8*b.DataSize, 0)
			} else {
				kzfmt.SetBits(stream, b.OffPreLen, 8*b.DataSize, (uint64(1)<<uint(8*b.DataSize))-1)
			}
		}
		if k != "ok" && firstBad < 0 {
			firstBad = i
		}
	}
	if len(c.Kinds) == 0 || c.Kinds[len(c.Kinds)-1] != "eos" {
		stream = stream[:(st.EndPos+7)/8]
	}
	// expected output of a correct reader
	for i, k := range c.Kinds {
		if k != "ok" {
			break
		}
		id := i + 1
		if (c.From == 0 || id >= c.From) && (c.To == 0 || id < c.To) {
			lo := i * realB
			hi := lo + realB
			if hi > len(original) {
				hi = len(original)
			}
			expected = append(expected, original[lo:hi]...)
		}
	}
	return
}

var decodeGateOfPc = map[string]int{"wait": kio.VH_D_WAIT, "shared": kio.VH_D_SEEN, "publish": kio.VH_D_READ1,
	"decode": kio.VH_D_PUB, "fin": kio.VH_D_FIN0, "done": kio.VH_D_FIN1}

type callRes struct {
	n   int
	err error
	buf []byte
}

func replayReaderOne(sc *rScenario, realB int, seed int64, stepTimeout time.Duration) (res rResult) {
	res = rResult{Sid: sc.Sid, Status: "match", Steps: len(sc.Steps)}
	stream, _, expected, err := buildWire(sc.Cfg, realB, seed)
	if err != nil {
		res.Status, res.Detail = "inconclusive", "wire: "+err.Error()
		return
	}
	S := realB / sc.Cfg.B
	rec := hk.NewRec(seed)
	sched := hk.NewSched([]int{kio.VH_D_WAIT, kio.VH_D_SEEN, kio.VH_D_READ1, kio.VH_D_PUB, kio.VH_D_FIN0}, []int{kio.VH_D_FIN1})
	// the hook after the spin loop is a gate only when the task got the token
	rec.Sched = sched
	src := &fio.Source{Data: stream}
	ctx := kz.RCfg{Jobs: uint(sc.Cfg.Jobs), From: sc.Cfg.From, To: sc.Cfg.To}.Ctx()
	sched.NoGate = func(pt int, a int64) bool { return pt == kio.VH_D_SEEN && a == -1 }
	ctx["verifHook"] = rec.Func()
	r, err := kio.NewReaderWithCtx(src, ctx)
	if err != nil {
		res.Status, res.Detail = "inconclusive", "reader: "+err.Error()
		return
	}

	var delivered []byte
	errReported := false
	closedByUs := false
	var pending chan callRes
	cur := map[int32]int{} // gate at which each task currently waits (0 = unknown)
	freeRun := false       // after a divergence from the model: gates open, only the API calls are issued
	var driftInfo [2]string
	driftStep := 0
	evSeen := 0
	cancelPublished := false

	defer func() {
		sched.Free()
		if pending != nil {
			select {
			case <-pending:
			case <-time.After(6 * time.Second):
				res.Status, res.Pred, res.Detail = "violation", "termination", "Read did not return within 6 s after all gates were opened"
			}
		}
		if res.Status != "match" {
			for _, e := range rec.Events() {
				res.Events = append(res.Events, fmt.Sprintf("%s(%d,a=%d,b=%d)", hk.Names[e.Pt], e.ID, e.A, e.B))
			}
			if len(res.Events) > 80 {
				res.Events = res.Events[len(res.Events)-80:]
			}
		}
	}()

	fail := func(i int, status, pred, detail string) {
		if status == "drift" && !freeRun {
			freeRun = true
			driftInfo = [2]string{pred, detail}
			driftStep = i
			sched.Free()
			return
		}
		if status == "drift" {
			return
		}
		res.Status, res.Pred, res.Detail, res.Step = status, pred, detail, i
	}

	// protocol predicate that is exact while the gates impose a total order (C07): once a task has published
	// a failure or the end of the stream, no task acquires the shared stream any more
	scanEvents := func(i int) bool {
		evs := rec.Events()
		for ; evSeen < len(evs); evSeen++ {
			e := evs[evSeen]
			if e.Pt == kio.VH_D_FIN1 && e.B == -1 {
				cancelPublished = true
			}
			if e.Pt == kio.VH_D_SEEN && e.A != -1 && cancelPublished && !freeRun {
				fail(i, "violation", "C07_acquire_after_cancel", fmt.Sprintf("task %d acquired the shared stream after a failure / end of stream was published", e.ID))
				return false
			}
		}
		return true
	}

	// judge evaluates the property predicates on a completed call (independent of the model)
	judge := func(i int, cr callRes) bool {
		cls := kz.Class(cr.err)
		if cr.n < 0 || cr.n > len(cr.buf) {
			fail(i, "violation", "C17_count", fmt.Sprintf("Read returned n=%d for a buffer of %d", cr.n, len(cr.buf)))
			return false
		}
		got := cr.buf[:cr.n]
		off := len(delivered)
		delivered = append(delivered, got...)
		if closedByUs {
			if cr.n > 0 || cls == "none" || cls == "eof" {
				fail(i, "violation", "C17_read_after_close", fmt.Sprintf("after Close: n=%d class=%s", cr.n, cls))
				return false
			}
			return true
		}
		if len(delivered) > len(expected) || !bytes.Equal(delivered[off:], expected[off:off+len(got)]) {
			fail(i, "violation", "R_Prefix", fmt.Sprintf("Read returned %d bytes at offset %d that are not the expected bytes", cr.n, off))
			return false
		}
		if errReported && (cr.n > 0 || cls == "eof") {
			fail(i, "violation", "R_NothingAfterError", fmt.Sprintf("after an error: n=%d class=%s", cr.n, cls))
			return false
		}
		if cls == "eof" && !(len(delivered) == len(expected) && wireClean(sc.Cfg)) {
			fail(i, "violation", "R_EOFOnlyAtEnd", fmt.Sprintf("clean EOF after %d of %d bytes, clean wire=%v", len(delivered), len(expected), wireClean(sc.Cfg)))
			return false
		}
		if cls == "err" && wireClean(sc.Cfg) {
			fail(i, "violation", "R_CleanStreamFails", "a Read failed on an undamaged complete stream: "+cr.err.Error())
			return false
		}
		if cls == "err" {
			errReported = true
		}
		return true
	}

	checkReturn := func(i int, cr callRes, exp rExp) bool {
		if !judge(i, cr) {
			return false
		}
		if freeRun {
			return true
		}
		cls := kz.Class(cr.err)
		mn, _ := exp.Ret["n"].(float64)
		me, _ := exp.Ret["err"].(string)
		if int(mn)*S != cr.n || me != cls {
			fail(i, "drift", "ret", fmt.Sprintf("model returns (%d,%s), code returns (%d,%s: %v)", int(mn)*S, me, cr.n, cls, cr.err))
		}
		return true
	}

	waitPending := func(i int) bool {
		if pending == nil {
			return true
		}
		select {
		case cr := <-pending:
			pending = nil
			return judge(i, cr)
		case <-time.After(6 * time.Second):
			res.Status, res.Pred, res.Detail, res.Step = "violation", "termination", "Read did not return within 6 s with all gates open", i
			pending = nil
			return false
		}
	}

	// every direct call of the API is guarded: a call that never returns (with all gates open) is a termination violation,
	// not a hang of the check
	const callTimeout = 20 * time.Second
	gRead := func(i int, buf []byte) (callRes, bool) {
		ch := make(chan callRes, 1)
		go func() {
			m, e := r.Read(buf)
			ch <- callRes{m, e, buf}
		}()
		select {
		case cr := <-ch:
			return cr, true
		case <-time.After(callTimeout):
			res.Status, res.Pred, res.Detail, res.Step = "violation", "termination", fmt.Sprintf("Read did not return within %v with all gates open", callTimeout), i
			return callRes{}, false
		}
	}
	gClose := func(i int) (error, bool) {
		ch := make(chan error, 1)
		go func() { ch <- r.Close() }()
		select {
		case e := <-ch:
			return e, true
		case <-time.After(callTimeout):
			res.Status, res.Pred, res.Detail, res.Step = "violation", "termination", fmt.Sprintf("Close did not return within %v", callTimeout), i
			return nil, false
		}
	}

	prev := sc.Init
	for i, st := range sc.Steps {
		exp := sc.Exp[i]
		if freeRun {
			switch st.A {
			case "ReadBegin":
				if !waitPending(i) {
					return
				}
				cr, ok := gRead(i, make([]byte, st.X[0]*S))
				if !ok || !judge(i, cr) {
					return
				}
			case "Close":
				if !waitPending(i) {
					return
				}
				if _, ok := gClose(i); !ok {
					return
				}
				closedByUs = true
			}
			continue
		}
		switch st.A {
		case "ReadBegin":
			if pending != nil {
				fail(i, "inconclusive", "script", "ReadBegin while a call is pending")
				return
			}
			n := st.X[0] * S
			ch := make(chan callRes, 1)
			buf := make([]byte, n)
			go func() {
				m, e := r.Read(buf)
				ch <- callRes{m, e, buf}
			}()
			pending = ch
		case "Close":
			e, ok := gClose(i)
			if !ok {
				return
			}
			closedByUs = true
			if e != nil {
				fail(i, "violation", "C17_close_fails", "Close returned "+e.Error())
				return
			}
		case "ReadLoop", "StartBatch", "Join", "Terminated":
			// steps of the calling goroutine: nothing to drive
		case "Wait", "Shared", "Publish", "Decode", "Fin":
			t := st.X[0]
			id := int32(prev.BatchFirst + t + 1)
			res.TaskOps++
			if cur[id] == 0 {
				pt, _, done := sched.WaitAt(id, stepTimeout)
				if pt == 0 || done {
					fail(i, "drift", "gate", fmt.Sprintf("task %d did not reach its first gate", id))
					continue
				}
				cur[id] = pt
			}
			want := decodeGateOfPc[prev.Tpc[fmt.Sprint(t)]]
			if cur[id] != want {
				fail(i, "drift", "gate", fmt.Sprintf("task %d waits at %s, model pc %s", id, hk.Names[cur[id]], prev.Tpc[fmt.Sprint(t)]))
				continue
			}
			sched.Release(id)
			pt, _, _ := sched.WaitAt(id, stepTimeout)
			if pt == 0 {
				// the task neither reached a gate nor finished: a hang under a legal schedule
				fail(i, "violation", "termination", fmt.Sprintf("task %d released from %s (%s) did not reach another protocol point within %v", id, hk.Names[want], st.A, stepTimeout))
				return
			}
			cur[id] = pt
			if !scanEvents(i) {
				return
			}
			wantNext := decodeGateOfPc[exp.Tpc[fmt.Sprint(t)]]
			if pt != wantNext {
				fail(i, "drift", "gate", fmt.Sprintf("after %s(%d) task %d is at %s, model pc %s", st.A, t, id, hk.Names[pt], exp.Tpc[fmt.Sprint(t)]))
				continue
			}
			if st.A == "Fin" {
				// counter value after the deferred function, as seen by the hook
				evs := rec.Events()
				for k := len(evs) - 1; k >= 0; k-- {
					if evs[k].Pt == kio.VH_D_FIN1 && evs[k].ID == id {
						if int(evs[k].B) != exp.Counter {
							fail(i, "drift", "counter", fmt.Sprintf("after Fin(%d) counter is %d, model %d", t, evs[k].B, exp.Counter))
						}
						break
					}
				}
			}
		default:
			fail(i, "inconclusive", "script", "unknown action "+st.A)
			return
		}
		// did the pending call return in the model at this step ?
		if !freeRun && pending != nil && exp.Rpc == "idle" && st.A != "Close" {
			select {
			case cr := <-pending:
				pending = nil
				if !checkReturn(i, cr, exp) {
					return
				}
			case <-time.After(stepTimeout):
				if freeRun {
					fail(i, "violation", "termination", fmt.Sprintf("model: call returns after %s; real call still blocked after %v with all gates open", st.A, stepTimeout))
					return
				}
				// the real call may be waiting for tasks that the model does not have at this point and that sit at closed gates:
				// that is a divergence from the model, not a hang. Open the gates; only a call that does not return then is stuck.
				fail(i, "drift", "call-blocked", fmt.Sprintf("model: call returns after %s; real call still blocked after %v", st.A, stepTimeout))
				if !waitPending(i) {
					return
				}
			}
		}
		prev = exp
	}
	// the path ended: open the gates, let the pending call finish, then complete the history as a caller would
	// (read to the end) and judge everything with the property predicates
	sched.Free()
	wasFree := freeRun
	freeRun = true
	if !waitPending(len(sc.Steps)) {
		return
	}
	if !closedByUs {
		for k := 0; k < 400; k++ {
			buf := make([]byte, 3*S)
			m, e := r.Read(buf)
			if !judge(len(sc.Steps), callRes{m, e, buf}) {
				return
			}
			if e != nil {
				// one more call: what follows an error or the end must still be right
				buf2 := make([]byte, S)
				m2, e2 := r.Read(buf2)
				if !judge(len(sc.Steps), callRes{m2, e2, buf2}) {
					return
				}
				break
			}
		}
		if !errReported && wireClean(sc.Cfg) && len(delivered) != len(expected) {
			fail(len(sc.Steps), "violation", "R_CompleteAtEOF", fmt.Sprintf("complete stream: %d of %d bytes delivered at EOF", len(delivered), len(expected)))
			return
		}
	}
	if wasFree && res.Status == "match" {
		res.Status, res.Pred, res.Detail, res.Step = "drift", driftInfo[0], driftInfo[1], driftStep
	}
	return
}

func wireClean(c rCfg) bool {
	if len(c.Kinds) == 0 || c.Kinds[len(c.Kinds)-1] != "eos" {
		return false
	}
	for _, k := range c.Kinds[:len(c.Kinds)-1] {
		if k != "ok" {
			return false
		}
	}
	return true
}

// cmdReplayReader: kzh replay-reader <scenarios.ndjson> <results.ndjson> [realB] [seed]
func cmdReplayReader(args []string) int {
	in, err := os.Open(args[0])
	if err != nil {
		fmt.Fprintln(os.Stderr, err)
		return 2
	}
	defer in.Close()
	out, err := os.Create(args[1])
	if err != nil {
		fmt.Fprintln(os.Stderr, err)
		return 2
	}
	defer out.Close()
	realB := 1024
	seed := int64(1)
	if len(args) > 2 {
		fmt.Sscan(args[2], &realB)
	}
	if len(args) > 3 {
		fmt.Sscan(args[3], &seed)
	}
	sc := bufio.NewScanner(in)
	sc.Buffer(make([]byte, 1<<20), 1<<28)
	bw := bufio.NewWriter(out)
	defer bw.Flush()
	par := 8
	if len(args) > 4 {
		fmt.Sscan(args[4], &par)
	}
	type job struct {
		n int
		s *rScenario
	}
	jobs := make(chan job, 64)
	var mu sync.Mutex
	var wg sync.WaitGroup
	var nviol, nagain int32
	var again []job
	for w := 0; w < par; w++ {
		wg.Add(1)
		go func() {
			defer wg.Done()
			for j := range jobs {
				if atomic.LoadInt32(&nviol) >= 12 || atomic.LoadInt32(&nagain) >= 6 {
					// enough witnesses: the remaining scenarios would only cost time (hangs are bounded by timeouts)
					continue
				}
				r := replayReaderOne(j.s, realB, seed+int64(j.n), 3*time.Second)
				if r.Status == "violation" && r.Pred == "termination" {
					// "did not get there in time" while many scenarios run in parallel may be the load: the scenario is
					// replayed again alone, with longer bounds, after the others; only that replay is the verdict
					mu.Lock()
					again = append(again, j)
					mu.Unlock()
					// (a call that never returns keeps spinning in its abandoned goroutines: a handful of candidates is enough)
					atomic.AddInt32(&nagain, 1)
					continue
				}
				if r.Status == "violation" {
					atomic.AddInt32(&nviol, 1)
				}
				b, _ := json.Marshal(r)
				mu.Lock()
				bw.Write(b)
				bw.WriteByte('\n')
				mu.Unlock()
			}
		}()
	}
	n := 0
	for sc.Scan() {
		s := &rScenario{}
		if err := json.Unmarshal(sc.Bytes(), s); err != nil {
			fmt.Fprintln(os.Stderr, "bad scenario:", err)
			return 2
		}
		jobs <- job{n, s}
		n++
	}
	close(jobs)
	wg.Wait()
	for k, j := range again {
		if k >= 6 {
			break
		}
		r := replayReaderOne(j.s, realB, seed+int64(j.n), 12*time.Second)
		b, _ := json.Marshal(r)
		bw.Write(b)
		bw.WriteByte('\n')
	}
	return 0
}
