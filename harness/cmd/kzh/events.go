package main

// Driver for the listener interface of the streams (spec KzEvents, judge Trace_Events): the events delivered to
// kanzi.Listener objects registered on a Writer / Reader, in the order in which the listeners receive them.
// Not one of the listed properties: the verdicts of this driver are reported as observations (see DESIGN.md).

import (
	"bytes"
	"flag"
	"fmt"
	"math/rand"
	"sync"

	kanzi "github.com/flanglet/kanzi-go/v2"
	kio "github.com/flanglet/kanzi-go/v2/io"
	"kzverif/fio"
	"kzverif/gen"
	"kzverif/kz"
	"kzverif/kzfmt"
	"kzverif/tr"
	"kzverif/xxref"
)

type evListener struct {
	mu     sync.Mutex
	side   string
	run    int
	evs    []tr.Ev
	panicK int // panic on every panicK-th event (0 = never)
	n      int
}

func (l *evListener) ProcessEvent(e *kanzi.Event) {
	l.mu.Lock()
	l.n++
	n := l.n
	ev := tr.Ev{"ev": "L", "run": l.run, "side": l.side, "t": e.Type(), "id": e.ID(), "size": e.Size(), "hash": fmt.Sprintf("%x", e.Hash()), "ht": e.HashType()}
	if e.Info() != nil {
		ev["hdrBlock"] = e.Info().BlockSize
		ev["hdrCk"] = e.Info().ChecksumSize
		ev["hdrT"] = e.Info().TransformType
		ev["hdrE"] = e.Info().EntropyType
	}
	l.evs = append(l.evs, ev)
	l.mu.Unlock()
	if l.panicK > 0 && n%l.panicK == 0 {
		panic("listener failure injected by the harness")
	}
}

func cmdEvents(args []string) int {
	fs := flag.NewFlagSet("events", flag.ExitOnError)
	n := fs.Int("n", 100, "cases")
	seed := fs.Int64("seed", 1, "seed")
	out := fs.String("out", "trace.ndjson", "trace")
	fs.Parse(args)
	w, err := tr.Open(*out)
	if err != nil {
		return 2
	}
	const kanziSeed = 0x4B414E5A
	cnt := 0
	for k := 0; k < *n; k++ {
		rnd := rand.New(rand.NewSource(*seed*7919 + int64(k)*31337))
		pair := fastPairs[rnd.Intn(16)]
		B := pick(rnd, []uint{1024, 4096, 65536})
		nb := 1 + rnd.Intn(9)
		size := (nb-1)*int(B) + 1 + rnd.Intn(int(B))
		if rnd.Intn(8) == 0 {
			size = nb * int(B)
		}
		if rnd.Intn(25) == 0 {
			size = 0
		}
		shape := pick(rnd, []string{"text", "mixed", "runs", "random", "numeric", "html", "zeros", "smallalpha"})
		cfg := kz.Cfg{Transform: pair[0], Entropy: pair[1], Block: B, Jobs: uint(1 + rnd.Intn(4)), Ck: pick(rnd, []uint{0, 32, 64}), Hint: pick(rnd, []int64{-1, 0, int64(size)})}
		data := gen.Make(shape, *seed*17+int64(k), size)
		panicK := pick(rnd, []int{0, 0, 1, 3})
		// reference stream: no listener
		plain, perr := kz.Compress(data, cfg, nil, nil)
		if perr != nil {
			continue
		}
		// writer with listener
		wl := &evListener{side: "w", run: k, panicK: panicK}
		sink := &fio.Sink{}
		kw, err := kio.NewWriterWithCtx(sink, cfg.Ctx())
		if err != nil {
			continue
		}
		kw.AddListener(wl)
		_, werr := kz.WriteAll(kw, data, pick(rnd, [][]int{nil, {1000}, {int(B)}, {70001}}))
		cerr := kw.Close()
		// reader with listener
		rjobs := uint(1 + rnd.Intn(4))
		rl := &evListener{side: "r", run: k, panicK: panicK}
		kr, err := kio.NewReaderWithCtx(&fio.Source{Data: sink.Data}, kz.RCfg{Jobs: rjobs}.Ctx())
		restored := false
		rerr := ""
		if err == nil {
			kr.AddListener(rl)
			got, e, _ := kz.ReadAll(kr, pick(rnd, [][]int{nil, {100}, {int(B) + 1}}), size+1<<20)
			kr.Close()
			restored = bytes.Equal(got, data)
			if e != nil {
				rerr = e.Error()
			}
		} else {
			rerr = err.Error()
		}
		// expectations computed independently of the code under test
		nblocks := (size + int(B) - 1) / int(B)
		blens := make([]int, 0, nblocks)
		hashes := make([]string, 0, nblocks)
		for b := 0; b < nblocks; b++ {
			lo, hi := b*int(B), min((b+1)*int(B), size)
			blens = append(blens, hi-lo)
			switch cfg.Ck {
			case 32:
				hashes = append(hashes, fmt.Sprintf("%x", xxref.XXH32(data[lo:hi], kanziSeed)))
			case 64:
				hashes = append(hashes, fmt.Sprintf("%x", xxref.KanziXXH64(data[lo:hi], kanziSeed)))
			default:
				hashes = append(hashes, "0")
			}
		}
		payload := []int{}
		prelen := []int{}
		if st, perr := kzfmt.Parse(sink.Data, false, 0); perr == nil {
			for _, b := range st.Blocks {
				payload = append(payload, (b.LenBits+7)/8)
				prelen = append(prelen, b.PreLen)
			}
		}
		evs := []tr.Ev{{"ev": "Case", "run": k, "cfg": fmt.Sprintf("%s&%s B=%d jobs=%d/%d ck=%d %s n=%d panicK=%d", cfg.Transform, cfg.Entropy, B, cfg.Jobs, rjobs, cfg.Ck, shape, size, panicK),
			"ck": int(cfg.Ck), "jobs": int(cfg.Jobs), "rjobs": int(rjobs), "nblocks": nblocks, "blens": blens, "hashes": hashes, "payload": payload, "prelen": prelen, "B": int(B),
			"sameStream": bytes.Equal(plain, sink.Data), "restored": restored, "werr": fmt.Sprint(werr, cerr), "wok": werr == nil && cerr == nil, "rerr": rerr}}
		evs = append(evs, wl.evs...)
		evs = append(evs, rl.evs...)
		evs = append(evs, tr.Ev{"ev": "End", "run": k})
		w.EmitAll(evs)
		cnt++
	}
	w.Close()
	fmt.Println(cnt)
	return 0
}

func init() {
	commands["events"] = cmdEvents
}
