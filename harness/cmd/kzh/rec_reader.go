package main

// Record-mode drivers for the Reader: run the real code free (with schedule perturbation at the
// hooks), log one event per protocol point / API return, for validation by specs/Trace_Reader.tla.

import (
	"encoding/json"
	"flag"
	"fmt"
	"math"
	"math/rand"
	"os"
	"sort"
	"strings"
	"sync"
	"sync/atomic"

	kio "github.com/flanglet/kanzi-go/v2/io"
	"kzverif/fio"
	"kzverif/gen"
	"kzverif/hk"
	"kzverif/kz"
	"kzverif/kzfmt"
	"kzverif/tr"
)

// codec pairs used to build streams for the reader-side drivers
var fastPairs = [][2]string{{"NONE", "NONE"}, {"NONE", "HUFFMAN"}, {"LZ", "NONE"}, {"LZ", "HUFFMAN"}, {"TEXT+LZ", "ANS0"},
	{"RLT", "NONE"}, {"PACK+LZ", "NONE"}, {"BWT+RANK+ZRLT", "ANS0"}, {"LZX", "HUFFMAN"}, {"ROLZ", "NONE"},
	{"BWT", "ANS0"}, {"LZP+TEXT", "HUFFMAN"}, {"SRT", "FPAQ"}, {"MTFT+ZRLT", "RANGE"}, {"EXE+LZ", "HUFFMAN"},
	{"TEXT+UTF", "NONE"}, {"BWTS", "NONE"}, {"NONE", "CM"}, {"FSD", "NONE"}, {"MM", "NONE"}, {"DNA", "NONE"}, {"ALIAS", "ANS0"}}

type readerRun struct {
	Key            string  `json:"key,omitempty"` // runs with the same key must deliver the same number of bytes (same stream, same jobs)
	Run            int     `json:"run"`
	Mode           string  `json:"mode"` // clean | damaged | truncated | nock
	Shape          string  `json:"shape"`
	Size           int     `json:"size"`
	W              kz.Cfg  `json:"w"`
	R              kz.RCfg `json:"r"`
	Chunks         []int   `json:"chunks,omitempty"`
	Lens           []int   `json:"lens,omitempty"`
	Perturb        int     `json:"perturb"`
	Mut            string  `json:"mut,omitempty"`
	Seed           int64   `json:"seed"`
	After          int     `json:"after"`             // extra Read calls after the first error / EOF
	CloseAt        int     `json:"closeAt"`           // call index at which Close is issued (-1 never before the end)
	SrcFail        []int   `json:"srcFail,omitempty"` // source Read calls (1-based) that fail
	SrcFailAtEnd   bool    `json:"srcFailAtEnd,omitempty"`
	SrcErrWithData bool    `json:"srcErrWithData,omitempty"`
	SrcDataErr     []int   `json:"srcDataErr,omitempty"` // source Read calls that return their data together with an error (once)
}

// expectedSlice returns the bytes a correct reader delivers for the block range of the run.
// tlcInt: TLC integers are 32 bit; a range bound beyond 2^30 means the same as 2^30 for every stream the drivers build
func tlcInt(v int) int {
	if v > 1<<30 {
		return 1 << 30
	}
	return v
}

type hugeStream struct {
	base   readerRun
	stream []byte
	orig   []byte
	B      uint
	dseed  int64
}

func expectedSlice(orig []byte, B int, from, to int) []byte {
	if from == 0 && to == 0 {
		return orig
	}
	nb := (len(orig) + B - 1) / B
	var out []byte
	for id := 1; id <= nb; id++ {
		if (from == 0 || id >= from) && (to == 0 || id < to) {
			lo := (id - 1) * B
			hi := lo + B
			if hi > len(orig) {
				hi = len(orig)
			}
			out = append(out, orig[lo:hi]...)
		}
	}
	return out
}

// hookEvents converts recorded hook events to trace events of the decode side.
func decodeHookEvent(e hk.Ev) tr.Ev {
	switch e.Pt {
	case kio.VH_R_SPAWN:
		return tr.Ev{"ev": "R_SPAWN", "first": int(e.ID), "n": e.A}
	case kio.VH_R_JOIN:
		return tr.Ev{"ev": "R_JOIN", "counter": int(e.ID)}
	case kio.VH_D_SEEN:
		return tr.Ev{"ev": "D_SEEN", "id": int(e.ID), "tok": e.A}
	case kio.VH_D_READ1:
		return tr.Ev{"ev": "D_REL", "id": int(e.ID)}
	case kio.VH_D_DEC:
		return tr.Ev{"ev": "D_DEC", "id": int(e.ID), "dec": e.A}
	case kio.VH_D_FIN0:
		return tr.Ev{"ev": "D_FIN0", "id": int(e.ID), "err": e.A, "dec": e.B}
	case kio.VH_D_FIN1:
		return tr.Ev{"ev": "D_FIN1", "id": int(e.ID), "counter": e.B}
	}
	return nil
}

// execReaderRun drives one Reader over the given stream and returns the trace events of the run.
func execReaderRun(run *readerRun, stream []byte, expected []byte, inject func(pt int, id int32, a, b int64, buf []byte)) []tr.Ev {
	desc, _ := json.Marshal(run)
	evs := []tr.Ev{{"ev": "Reset", "run": run.Run, "mode": run.Mode, "total": len(expected), "from": tlcInt(run.R.From), "to": tlcInt(run.R.To),
		"ck": run.W.Ck, "jobs": run.R.Jobs, "desc": string(desc)}}
	rec := hk.NewRec(run.Seed)
	rec.Perturb = run.Perturb
	rec.Digest = map[int]bool{}
	rec.Inject = inject
	src := &fio.Source{Data: stream, Chunks: run.Chunks, Fail: map[int]bool{}, FailAtEnd: run.SrcFailAtEnd, ErrWithData: run.SrcErrWithData}
	for _, k := range run.SrcFail {
		src.Fail[k] = true
	}
	src.DataErr = map[int]bool{}
	for _, k := range run.SrcDataErr {
		src.DataErr[k] = true
	}
	srcSeen := 0
	ctx := run.R.Ctx()
	ctx["verifHook"] = rec.Func()
	r, err := kio.NewReaderWithCtx(src, ctx)
	if err != nil {
		evs = append(evs, tr.Ev{"ev": "Note", "what": "reader construction failed: " + err.Error()})
		return evs
	}
	lastGetRead := uint64(0)
	_ = lastGetRead
	flush := func() {
		for ; srcSeen < len(src.Calls); srcSeen++ {
			if c := src.Calls[srcSeen]; c.Inj {
				evs = append(evs, tr.Ev{"ev": "SRC_FAIL", "k": c.K, "got": c.Got, "complete": c.Pos >= len(src.Data)})
			}
		}
		for _, e := range rec.Events() {
			if te := decodeHookEvent(e); te != nil {
				evs = append(evs, te)
			}
		}
		rec.Reset()
	}
	delivered := 0
	after := -1
	closed := false
	rnd := rand.New(rand.NewSource(run.Seed ^ 0x5bd1e995))
	for call := 0; call < 100000; call++ {
		if run.CloseAt >= 0 && call == run.CloseAt && !closed {
			cerr := r.Close()
			flush()
			evs = append(evs, tr.Ev{"ev": "Close", "err": kz.Class(cerr)})
			closed = true
			if after < 0 {
				after = run.After
			}
		}
		n := 65536
		if len(run.Lens) > 0 {
			n = run.Lens[call%len(run.Lens)]
			if n < 0 {
				n = rnd.Intn(-n + 1)
			}
		}
		buf := make([]byte, n)
		var m int
		var err error
		if !guardBytes(len(stream)+len(expected), func() { m, err = r.Read(buf) }) {
			flush()
			evs = append(evs, tr.Ev{"ev": "Hang", "op": "Read", "len": n})
			return evs
		}
		flush()
		want := "overflow"
		if m >= 0 && delivered+m <= len(expected) {
			want = tr.Dig(expected[delivered : delivered+m])
		}
		got := ""
		if m >= 0 && m <= n {
			got = tr.Dig(buf[:m])
		}
		evs = append(evs, tr.Ev{"ev": "Read", "n": m, "len": n, "got": got, "want": want, "err": kz.Class(err), "off": delivered})
		if call%3 == 0 {
			evs = append(evs, tr.Ev{"ev": "GetRead", "v": int(r.GetRead()), "srcPos": src.Pos})
		}
		if m > 0 {
			delivered += m
		}
		if err != nil && after < 0 {
			after = run.After
		}
		if after == 0 {
			break
		}
		if after > 0 {
			after--
		}
		if delivered > len(expected)+(1<<20) {
			break
		}
	}
	if !closed {
		cerr := r.Close()
		flush()
		evs = append(evs, tr.Ev{"ev": "Close", "err": kz.Class(cerr)})
	}
	if run.Key != "" {
		// what the caller got out of this stream with this job count (C06: the same for every sequence of Read lengths)
		evs = append(evs, tr.Ev{"ev": "Delivered", "key": run.Key, "n": delivered})
	}
	return evs
}

type caseT struct {
	run      *readerRun
	stream   []byte
	expected []byte
	inject   func(pt int, id int32, a, b int64, buf []byte)
}

// enumReaderCases enumerates complete case families (all cut positions, all payload bytes, all ranges).
func enumReaderCases(mode string, seed int64, thorough bool, n int) []func() (caseT, bool) {
	var gens []func() (caseT, bool)
	var hugeStreams []hugeStream
	rnd := rand.New(rand.NewSource(seed*48271 + 11))
	nstreams := 6
	maxLen := 700
	if thorough {
		nstreams = 14
		maxLen = 4200
	}
	if mode == "c09x" {
		// the outcome of a cut depends on the bit alignment of the block payloads: many small streams
		nstreams = 16
		if thorough {
			nstreams = 60
		}
	}
	if mode == "c11x" {
		nstreams = 3
		if thorough {
			nstreams = 8
		}
	}
	k := 0
	if mode == "c06d" {
		// damaged and truncated streams read with different sequences of Read lengths: how much the caller gets before the error
		// must not depend on them (whole batches in front of the failing one, whatever the buffers)
		for si := 0; si < 6; si++ {
			B := uint(1024)
			pair := fastPairs[rnd.Intn(12)]
			nb := 5 + rnd.Intn(6)
			size := (nb-1)*int(B) + 1 + rnd.Intn(int(B))
			shape := pick(rnd, []string{"text", "runs", "dna", "numeric", "mixed"})
			w := kz.Cfg{Transform: pair[0], Entropy: pair[1], Block: B, Jobs: 2, Ck: pick(rnd, []uint{32, 64}), Hint: pick(rnd, []int64{-1, int64(size)})}
			dseed := seed*151 + int64(si)
			orig := gen.Make(shape, dseed, size)
			stream, err := kz.Compress(orig, w, nil, nil)
			if err != nil {
				continue
			}
			st, perr := kzfmt.Parse(stream, false, 0)
			if perr != nil || len(st.Blocks) < 4 {
				continue
			}
			var muts [][]byte
			var names []string
			for _, frac := range []int{45, 70, 93} {
				cut := len(stream) * frac / 100
				muts = append(muts, stream[:cut])
				names = append(names, fmt.Sprintf("cut@%d/%d", cut, len(stream)))
			}
			for _, bi := range []int{1, len(st.Blocks) / 2, len(st.Blocks) - 1} {
				d := append([]byte(nil), stream...)
				blk := st.Blocks[bi]
				pos := blk.OffEntropy + (blk.Payload+blk.LenBits-blk.OffEntropy)/2
				kzfmt.SetBits(d, pos, 1, 1^kzfmt.GetBits(d, pos, 1))
				muts = append(muts, d)
				names = append(names, fmt.Sprintf("flip@%d(b%d)", pos, blk.ID))
			}
			for mi, mst := range muts {
				for _, jobs := range []uint{1, 2, 3} {
					for li, lens := range [][]int{{1 << 20}, {65536}, {1000}, {1}, {7, 1, 300}, {1023, 1025}, {0, 5, 0, 100000}} {
						if lens[0] == 1 && size > 6000 {
							continue
						}
						run := readerRun{Shape: shape, Size: size, W: w, CloseAt: -1, After: 3, Mode: "truncated", Mut: names[mi]}
						if mi >= 3 {
							run.Mode = "corrupt"
						}
						run.Run, run.Seed = k, dseed+int64(mi*100+li)
						run.R = kz.RCfg{Jobs: jobs}
						run.Lens = lens
						run.Key = fmt.Sprintf("s%d|%s|j%d", si, names[mi], jobs)
						r := run
						mst := mst
						gens = append(gens, func() (caseT, bool) { return caseT{&r, mst, orig, nil}, true })
						k++
					}
				}
			}
		}
		return gens
	}
	if mode == "c05m" {
		// every transform on data that makes it work, a dozen large blocks (the inverse phases of several tasks overlap for a long
		// time), decoded with 2..16 jobs: whatever state an inverse transform keeps must be its own
		act := map[string][]string{"TEXT": {"text", "html"}, "UTF": {"utf8cjk", "utf8wide"}, "DNA": {"dna"}, "PACK": {"smallalpha", "hex"}, "EXE": {"x86"},
			"MM": {"wav", "bmp"}, "RLT": {"runs"}, "ZRLT": {"sparse"}, "RANK": {"runs"}, "MTFT": {"runs"}, "SRT": {"text"}, "BWT": {"text"}, "BWTS": {"text"},
			"LZ": {"html"}, "LZX": {"html"}, "LZP": {"html"}, "ROLZ": {"text"}, "ROLZX": {"dnarep"}, "NONE": {"mixed"}}
		B := uint(262144)
		nb := 12
		if thorough {
			nb = 24
		}
		for ti, tf := range []string{"NONE", "BWT", "BWTS", "LZ", "RLT", "ZRLT", "MTFT", "RANK", "EXE", "TEXT", "ROLZ", "ROLZX", "SRT", "LZP", "MM", "LZX", "UTF", "PACK", "DNA",
			"TEXT+UTF+PACK+MM+LZX", "TEXT+UTF+BWT+RANK+ZRLT"} {
			shapes := act[strings.Split(tf, "+")[0]]
			for si, shape := range shapes {
				size := (nb-1)*int(B) + 70001
				dseed := seed*149 + int64(ti*10+si)
				// every block gets its own content (different tables / dictionaries from block to block)
				var orig []byte
				for b := 0; len(orig) < size; b++ {
					n := int(B)
					if len(orig)+n > size {
						n = size - len(orig)
					}
					orig = append(orig, gen.Make(shape, dseed+int64(1000*b), n)...)
				}
				w := kz.Cfg{Transform: tf, Entropy: "NONE", Block: B, Jobs: 4, Ck: []uint{0, 32}[(ti+si)%2], Hint: []int64{-1, int64(size)}[si%2]}
				stream, err := kz.Compress(orig, w, nil, nil)
				if err != nil {
					continue
				}
				base := readerRun{Shape: shape, Size: size, W: w, CloseAt: -1, After: 3, Mode: "clean"}
				jl := []uint{2, 4, 8}
				if thorough {
					jl = []uint{2, 3, 4, 8, 16}
				}
				for ji, j := range jl {
					run := base
					run.Run, run.Seed = k, dseed+int64(ji)
					run.R = kz.RCfg{Jobs: j}
					run.Lens = [][]int{{1 << 20}, {65536}, {300000, 7}}[(ti+ji)%3]
					run.Perturb = []int{0, 0, 3}[(ti+si+ji)%3]
					r := run
					gens = append(gens, func() (caseT, bool) { return caseT{&r, stream, orig, nil}, true })
					k++
				}
			}
		}
		return gens
	}
	for si := 0; si < 400 && nstreams > 0; si++ {
		B := uint(1024)
		pair := fastPairs[rnd.Intn(12)]
		nb := 1 + rnd.Intn(4)
		if mode == "c11x" {
			nb = 1 + rnd.Intn(12)
			if si == 0 {
				nb = 12
			}
		}
		size := (nb-1)*int(B) + 1 + rnd.Intn(int(B))
		shape := pick(rnd, []string{"text", "runs", "dna", "smallalpha", "zeros", "skew", "numeric"})
		if mode == "c11x" {
			shape = pick(rnd, gen.Shapes)
		}
		ck := pick(rnd, []uint{0, 32, 64})
		if mode == "c02x" || mode == "c02p" {
			ck = pick(rnd, []uint{32, 64})
		}
		w := kz.Cfg{Transform: pair[0], Entropy: pair[1], Block: B, Jobs: uint(1 + rnd.Intn(3)), Ck: ck, Hint: pick(rnd, []int64{-1, 0, int64(size)})}
		dseed := seed*131 + int64(si)
		orig := gen.Make(shape, dseed, size)
		stream, err := kz.Compress(orig, w, nil, nil)
		if err != nil {
			continue
		}
		chk, derr := kz.Decompress(stream, kz.RCfg{Jobs: 1}, nil, nil, nil, size+1<<20)
		if derr != nil || string(chk) != string(orig) {
			continue
		}
		if mode != "c11x" && mode != "c02p" && len(stream) > maxLen {
			continue
		}
		nstreams--
		base := readerRun{Shape: shape, Size: size, W: w, CloseAt: -1, After: 3, Mode: "clean"}
		switch mode {
		case "c09x":
			for cut := 0; cut < len(stream); cut++ {
				run := base
				run.Run, run.Seed = k, dseed+int64(cut)
				run.Mode = "truncated"
				run.Mut = fmt.Sprintf("cut@%d/%d", cut, len(stream))
				run.R = kz.RCfg{Jobs: uint(1 + (cut+si)%4)}
				run.Lens = lensMenu[(cut+si)%len(lensMenu)]
				run.Perturb = []int{0, 4}[cut%2]
				st := stream[:cut]
				r := run
				gens = append(gens, func() (caseT, bool) { return caseT{&r, st, orig, nil}, true })
				k++
			}
		case "c02x":
			st, perr := kzfmt.Parse(stream, false, 0)
			if perr != nil {
				continue
			}
			for _, b := range st.Blocks {
				// every byte-aligned position inside the payload, substituted by two different values
				for p := b.Payload; p+8 <= b.Payload+b.LenBits; p += 8 {
					for v := 0; v < 2; v++ {
						run := base
						run.Run, run.Seed = k, dseed+int64(p)
						run.Mode = "damaged"
						run.After = 4
						old := kzfmt.GetBits(stream, p, 8)
						nv := old ^ 0xFF
						if v == 1 {
							nv = old ^ uint64(1<<uint(p%8))
						}
						run.Mut = fmt.Sprintf("subst@%d(b%d)=%d", p, b.ID, nv)
						run.R = kz.RCfg{Jobs: uint(1 + (p/8+si)%4)}
						run.Lens = lensMenu[(p/8+si)%len(lensMenu)]
						m := append([]byte(nil), stream...)
						kzfmt.SetBits(m, p, 8, nv)
						r := run
						gens = append(gens, func() (caseT, bool) { return caseT{&r, m, orig, nil}, true })
						k++
					}
				}
			}
		case "c02p":
			// damage inside the pipeline: the decoded block is altered before the checksum is verified
			nblk := (size + int(B) - 1) / int(B)
			for id := 1; id <= nblk; id++ {
				for _, jobs := range []uint{1, 2, 4} {
					run := base
					run.Run, run.Seed = k, dseed+int64(id)
					run.Mode = "damaged"
					run.After = 4
					run.Mut = fmt.Sprintf("pipeline-damage(b%d)", id)
					run.R = kz.RCfg{Jobs: jobs}
					run.Lens = lensMenu[(id+si)%len(lensMenu)]
					run.Perturb = 4
					target := int32(id)
					inj := func(pt int, bid int32, a, b int64, buf []byte) {
						if pt == kio.VH_D_DEC && bid == target && len(buf) > 0 {
							buf[len(buf)/2] ^= 0x20
						}
					}
					r := run
					gens = append(gens, func() (caseT, bool) { return caseT{&r, stream, orig, inj}, true })
					k++
				}
			}
		case "c11x":
			nblk := (size + int(B) - 1) / int(B)
			hugeStreams = append(hugeStreams, hugeStream{base, stream, orig, B, dseed})
			for from := 1; from <= nblk+2; from++ {
				for to := from; to <= nblk+3; to++ {
					run := base
					run.Run, run.Seed = k, dseed+int64(from*100+to)
					run.R = kz.RCfg{Jobs: []uint{1, 2, 3, 4, 8}[(from+to+si)%5], From: from, To: to}
					run.Lens = lensMenu[(from*7+to)%len(lensMenu)]
					run.Perturb = []int{0, 4}[(from+to)%2]
					exp := expectedSlice(orig, int(B), from, to)
					r := run
					gens = append(gens, func() (caseT, bool) { return caseT{&r, stream, exp, nil}, true })
					k++
				}
			}
		}
	}
	if mode == "c11x" && len(hugeStreams) > 0 {
		// range bounds beyond 2^31: "to the end" spelled as a huge number, ranges entirely beyond the last block
		huge := [][2]int{{1, math.MaxInt64}, {2, 1<<32 + 4}, {1 << 31, 0}, {1<<32 + 1, 0}, {3, 1 << 31}, {1 << 31, 1<<31 + 5}, {1, math.MaxInt32}, {2, math.MaxInt32 + 1},
			{1<<32 + 2, 1<<32 + 3}, {math.MaxInt64 - 1, math.MaxInt64}}
		for hi2, hs := range hugeStreams {
			for bi, ft := range huge {
				run := hs.base
				run.Run, run.Seed = k, hs.dseed+int64(7000+bi)
				run.R = kz.RCfg{Jobs: []uint{1, 2, 3, 4, 8}[(bi+hi2)%5], From: ft[0], To: ft[1]}
				run.Lens = lensMenu[(bi*7+hi2)%len(lensMenu)]
				exp := expectedSlice(hs.orig, int(hs.B), ft[0], ft[1])
				r := run
				st := hs.stream
				gens = append(gens, func() (caseT, bool) { return caseT{&r, st, exp, nil}, true })
				k++
			}
		}
	}
	if mode == "c11x" {
		// long streams: the reader caps its batch size with a block count derived from the size recorded in the header,
		// which saturates at 63; ranges around that boundary and near the end, with and without a recorded size
		nbs := []int{70}
		if thorough {
			nbs = []int{70, 64, 130, 300}
		}
		for li, nb := range nbs {
			for hi, hintKind := range []int{1, 0} {
				B := 1024
				size := (nb-1)*B + 1 + rnd.Intn(B)
				shape := pick(rnd, []string{"text", "mixed", "runs", "numeric"})
				pair := fastPairs[rnd.Intn(12)]
				hint := int64(-1)
				if hintKind == 1 {
					hint = int64(size)
				}
				w := kz.Cfg{Transform: pair[0], Entropy: pair[1], Block: uint(B), Jobs: 4, Ck: pick(rnd, []uint{0, 32}), Hint: hint}
				dseed := seed*137 + int64(1000+li*2+hi)
				orig := gen.Make(shape, dseed, size)
				stream, err := kz.Compress(orig, w, nil, nil)
				if err != nil {
					continue
				}
				chk, derr := kz.Decompress(stream, kz.RCfg{Jobs: 1}, nil, nil, nil, size+1<<20)
				if derr != nil || string(chk) != string(orig) {
					continue
				}
				base := readerRun{Shape: shape, Size: size, W: w, CloseAt: -1, After: 3, Mode: "clean"}
				froms := []int{1, 2, 31, 62, 63, 64, 65, 66, nb - 1, nb, nb + 1}
				for _, from := range froms {
					for _, to := range []int{from, from + 1, from + 2, 64, 65, nb, nb + 1, nb + 3} {
						if to < from || from < 1 {
							continue
						}
						run := base
						run.Run, run.Seed = k, dseed+int64(from*1000+to)
						run.R = kz.RCfg{Jobs: []uint{1, 2, 3, 4, 8}[(from+to+li)%5], From: from, To: to}
						run.Lens = lensMenu[(from*7+to)%len(lensMenu)]
						run.Perturb = []int{0, 4}[(from+to)%2]
						exp := expectedSlice(orig, B, from, to)
						r := run
						gens = append(gens, func() (caseT, bool) { return caseT{&r, stream, exp, nil}, true })
						k++
					}
				}
			}
		}
	}
	return gens
}

type recSummary struct {
	Runs     int            `json:"runs"`
	Skipped  int            `json:"skipped"`
	Events   int            `json:"events"`
	Distinct int            `json:"distinct"`
	ByMode   map[string]int `json:"byMode"`
	Samples  []any          `json:"samples"`
	Notes    []string       `json:"notes,omitempty"`
	// HangsRerun: runs in which a call did not return under load and which were repeated alone (only the repetition is judged)
	HangsRerun int `json:"hangsRerun,omitempty"`
}

func pick[T any](r *rand.Rand, xs []T) T { return xs[r.Intn(len(xs))] }

var lensMenu = [][]int{nil, {1}, {7, 1, 300}, {1024}, {1023, 1025}, {4096}, {0, 5, 0, 100000}, {-5000}, {65536}, {3, 70000}, {-70000}}
var chunkMenu = [][]int{nil, nil, nil, {4096}, {1000}, {8}}

// planReaderRun draws one run for the given driver mode.
func planReaderRun(mode string, k int, seed int64, thorough bool) (*readerRun, []byte, []byte, []byte, bool) {
	rnd := rand.New(rand.NewSource(seed*1000003 + int64(k)*7919))
	run := &readerRun{Run: k, Seed: seed*31 + int64(k), CloseAt: -1, After: 3}
	blocks := []uint{1024, 1024, 2048, 4096, 16384, 65536}
	if thorough {
		blocks = append(blocks, 262144, 1<<20)
	}
	B := pick(rnd, blocks)
	pair := pick(rnd, fastPairs)
	if mode == "c02" || mode == "c09" {
		// small streams so that positions can be enumerated
		pair = pick(rnd, fastPairs[:12])
	}
	nb := rnd.Intn(10)
	if B >= 65536 {
		nb = rnd.Intn(5)
	}
	size := 0
	if nb > 0 {
		size = (nb-1)*int(B) + 1 + rnd.Intn(int(B))
		if rnd.Intn(4) == 0 {
			size = nb * int(B)
		}
	}
	run.Shape = pick(rnd, gen.Shapes)
	if mode == "c05" && k < 2 {
		// one block in the multi-MiB regime of the inverse BWT, with a size hint: the decoder gives all its jobs to the block
		B = 8 << 20
		pair = [2]string{pick(rnd, []string{"BWT", "TEXT+BWT"}), "NONE"}
		size = 5<<20 + rnd.Intn(1<<19)
		run.Shape = "text"
	}
	if mode == "c06" && k < 8 {
		// frames larger than the 256 KiB buffer of the input bit stream (incompressible data, large blocks): the bulk paths that
		// copy whole buffers from the source, at every bit alignment of the frame (eight different small first blocks shift it)
		B = 1 << 20
		pair = [][2]string{{"NONE", "NONE"}, {"LZ", "HUFFMAN"}, {"NONE", "ANS0"}, {"RLT", "NONE"}}[k%4]
		size = int(B) + 300000 + 40000*k
		run.Shape = "random"
	}
	run.Size = size
	ck := pick(rnd, []uint{0, 32, 64})
	if mode == "c02" {
		ck = pick(rnd, []uint{32, 64})
	}
	hint := int64(-1)
	switch rnd.Intn(3) {
	case 0:
		hint = int64(size)
	case 1:
		hint = 0
	}
	run.W = kz.Cfg{Transform: pair[0], Entropy: pair[1], Block: B, Jobs: uint(1 + rnd.Intn(4)), Ck: ck, Hint: hint}
	jobsMenu := []uint{1, 2, 3, 4, 5, 6, 7, 8, 16, 64}
	run.R = kz.RCfg{Jobs: pick(rnd, jobsMenu)}
	if mode == "c05" && k < 2 {
		run.W.Hint = int64(size)
		run.R.Jobs = []uint{3, 7}[k]
	}
	run.Lens = pick(rnd, lensMenu)
	run.Chunks = pick(rnd, chunkMenu)
	run.Perturb = pick(rnd, []int{0, 2, 4, 8})
	run.Mode = "clean"
	orig := gen.Make(run.Shape, run.Seed, size)
	stream, err := kz.Compress(orig, run.W, nil, nil)
	if err != nil {
		return run, nil, nil, nil, false
	}
	// the reference decoding must work, otherwise this is not a reader-side case (C01 reports it)
	chk, derr := kz.Decompress(stream, kz.RCfg{Jobs: 1}, nil, nil, nil, size+1<<20)
	if derr != nil || string(chk) != string(orig) {
		return run, nil, nil, nil, false
	}
	expected := orig
	switch mode {
	case "c11":
		nblk := (size + int(B) - 1) / int(B)
		run.R.From = 1 + rnd.Intn(nblk+2)
		run.R.To = run.R.From + rnd.Intn(nblk+3)
		if rnd.Intn(6) == 0 {
			run.R.From = 0
		}
		if rnd.Intn(6) == 0 {
			run.R.To = 0
		}
		expected = expectedSlice(orig, int(B), run.R.From, run.R.To)
	case "c02":
		st, perr := kzfmt.Parse(stream, false, 0)
		if perr != nil || len(st.Blocks) == 0 {
			return run, nil, nil, nil, false
		}
		run.Mode = "damaged"
		run.After = 6
		mutated := append([]byte(nil), stream...)
		nm := 1 + rnd.Intn(3)
		desc := ""
		for i := 0; i < nm; i++ {
			b := st.Blocks[rnd.Intn(len(st.Blocks))]
			// positions strictly inside the payload of the block (after the frame length fields)
			lo, hi := b.Payload, b.Payload+b.LenBits
			switch rnd.Intn(3) {
			case 0: // bit flip
				p := lo + rnd.Intn(hi-lo)
				kzfmt.SetBits(mutated, p, 1, 1^kzfmt.GetBits(mutated, p, 1))
				desc += fmt.Sprintf("flip@%d(b%d) ", p, b.ID)
			case 1: // byte substitution
				if hi-lo >= 8 {
					p := lo + rnd.Intn(hi-lo-7)
					kzfmt.SetBits(mutated, p, 8, uint64(rnd.Intn(256)))
					desc += fmt.Sprintf("subst@%d(b%d) ", p, b.ID)
				}
			case 2: // swap two bytes of the payload
				if hi-lo >= 16 {
					p := lo + rnd.Intn(hi-lo-7)
					q := lo + rnd.Intn(hi-lo-7)
					x, y := kzfmt.GetBits(mutated, p, 8), kzfmt.GetBits(mutated, q, 8)
					kzfmt.SetBits(mutated, p, 8, y)
					kzfmt.SetBits(mutated, q, 8, x)
					desc += fmt.Sprintf("swap@%d,%d(b%d) ", p, q, b.ID)
				}
			}
		}
		run.Mut = desc
		stream = mutated
	case "c09":
		run.Mode = "truncated"
		retried := false
		if k%4 == 1 {
			// a valid stream is also one whose writer met a transient sink failure in Close and was closed again; it is cut near
			// its end, where such a stream could differ
			if s2 := kz.CompressRetry(orig, run.W, nil); s2 != nil {
				if chk2, e2 := kz.Decompress(s2, kz.RCfg{Jobs: 1}, nil, nil, nil, size+1<<20); e2 == nil && string(chk2) == string(orig) {
					stream = s2
					retried = true
				}
			}
		}
		cut := rnd.Intn(len(stream))
		if k%4 == 1 {
			cut = len(stream) - 1 - rnd.Intn(min(9, len(stream)))
		}
		if rnd.Intn(3) == 0 {
			cut = len(stream) - 1 - rnd.Intn(min(3, len(stream)))
		}
		run.Mut = fmt.Sprintf("cut@%d/%d", cut, len(stream))
		if retried {
			run.Mut += " (written with a retried Close)"
		}
		stream = stream[:cut]
		if k%3 == 2 {
			// a truncated stream read with a block range: the cut may fall inside a block that the range skips
			nblk := (size + int(B) - 1) / int(B)
			run.R.From = 1 + rnd.Intn(nblk+1)
			run.R.To = run.R.From + rnd.Intn(nblk+2)
			if rnd.Intn(3) == 0 {
				run.R.To = 0
			}
			expected = expectedSlice(orig, int(B), run.R.From, run.R.To)
		}
	case "c08r":
		run.Mode = "srcfault"
		run.After = 4
		// number of source calls of the fault-free run
		probe := &fio.Source{Data: stream, Chunks: run.Chunks}
		if pr, e := kio.NewReaderWithCtx(probe, kz.RCfg{Jobs: run.R.Jobs}.Ctx()); e == nil {
			kz.ReadAll(pr, nil, size+1<<20)
			pr.Close()
		}
		ncalls := len(probe.Calls)
		switch rnd.Intn(6) {
		case 0:
			run.SrcFailAtEnd = true
		case 1:
			run.SrcFailAtEnd = true
			run.SrcErrWithData = true
		case 2, 3:
			// a transient failure reported together with data (sockets, pipes): the next call works again
			run.SrcDataErr = []int{1 + rnd.Intn(ncalls)}
			if len(run.Chunks) == 0 {
				run.Chunks = []int{pick(rnd, []int{1000, 4096, 65536})}
			}
		default:
			run.SrcFail = []int{1 + rnd.Intn(ncalls+1)}
			if rnd.Intn(3) == 0 {
				run.SrcFail = append(run.SrcFail, 1+rnd.Intn(ncalls+1))
			}
		}
		if rnd.Intn(2) == 0 && len(run.Chunks) == 0 {
			run.Chunks = []int{pick(rnd, []int{1000, 4096, 65536, 100000})}
		}
		if k%3 == 1 {
			// a source failure while a block OUTSIDE a requested block range is being read is a source failure like any other
			nblk := (size + int(B) - 1) / int(B)
			run.R.From = 1 + rnd.Intn(nblk+1)
			run.R.To = run.R.From + rnd.Intn(nblk+2)
			if rnd.Intn(3) == 0 {
				run.R.To = 0
			}
			expected = expectedSlice(orig, int(B), run.R.From, run.R.To)
		}
	case "c17r":
		run.CloseAt = rnd.Intn(6)
		run.After = 3
		run.Lens = pick(rnd, [][]int{{0, 1, 700}, {1024}, {1, 0}, {5000}, {100000}})
	case "c06":
		run.Chunks = pick(rnd, [][]int{{1}, {7}, {8}, {13, 5, 64}, {3, 1 << 20}, {-1}, {1, 2, 3, 4, 5, 6, 7}, {9}, {1000}, {4095, 1}})
		if run.Chunks[0] == -1 {
			run.Chunks = nil
			for i := 0; i < 50; i++ {
				run.Chunks = append(run.Chunks, 1+rnd.Intn(4096))
			}
		}
	}
	return run, stream, expected, orig, true
}

func cmdRecReader(args []string) int {
	fs := flag.NewFlagSet("rec-reader", flag.ExitOnError)
	mode := fs.String("mode", "c05", "driver mode")
	n := fs.Int("n", 100, "number of runs")
	seed := fs.Int64("seed", 1, "seed")
	out := fs.String("out", "trace.ndjson", "trace file")
	sum := fs.String("sum", "", "summary file")
	thorough := fs.Bool("thorough", false, "thorough tier")
	par := fs.Int("par", 8, "parallel runs")
	fs.Parse(args)

	w, err := tr.Open(*out)
	if err != nil {
		fmt.Fprintln(os.Stderr, err)
		return 2
	}
	s := recSummary{ByMode: map[string]int{}}
	var mu sync.Mutex
	distinct := map[string]bool{}
	var wg sync.WaitGroup
	sem := make(chan struct{}, *par)
	var retry []func() []tr.Ev
	var gens []func() (caseT, bool)
	switch *mode {
	case "c09x", "c02x", "c11x", "c02p", "c05m", "c06d":
		gens = enumReaderCases(*mode, *seed, *thorough, *n)
	default:
		for k := 0; k < *n; k++ {
			k := k
			gens = append(gens, func() (caseT, bool) {
				run, stream, expected, _, ok := planReaderRun(*mode, k, *seed, *thorough)
				return caseT{run, stream, expected, nil}, ok
			})
		}
	}
	for k := range gens {
		wg.Add(1)
		sem <- struct{}{}
		go func(k int) {
			defer wg.Done()
			defer func() { <-sem }()
			if atomic.LoadInt32(&hangCount) >= 6 {
				return
			}
			c, ok := gens[k]()
			if !ok {
				mu.Lock()
				s.Skipped++
				mu.Unlock()
				return
			}
			run := c.run
			evs := execReaderRun(run, c.stream, c.expected, c.inject)
			if hasHang(evs) {
				// a call that did not return while many runs were in flight may be an artefact of the load: the run is
				// repeated alone, with a longer bound, after all the others; only that verdict counts
				mu.Lock()
				retry = append(retry, func() []tr.Ev { return execReaderRun(run, c.stream, c.expected, c.inject) })
				mu.Unlock()
				return
			}
			w.EmitAll(evs)
			mu.Lock()
			s.Runs++
			s.Events += len(evs)
			s.ByMode[run.Mode]++
			key := fmt.Sprintf("%s|%s|%s|%d|%d|%d|%d|%v|%v|%s", run.Mode, run.W.Transform, run.W.Entropy, run.W.Block, run.R.Jobs, run.R.From, run.R.To, run.Lens, run.Chunks, run.Mut)
			if run.Size > int(run.W.Block) || run.Mode != "clean" {
				distinct[key] = true
			}
			if len(s.Samples) < 5 {
				s.Samples = append(s.Samples, run)
			}
			mu.Unlock()
		}(k)
	}
	wg.Wait()
	rerunAlone(retry, w, &s)
	w.Close()
	s.Distinct = len(distinct)
	sort.Slice(s.Samples, func(i, j int) bool { return s.Samples[i].(*readerRun).Run < s.Samples[j].(*readerRun).Run })
	b, _ := json.MarshalIndent(s, "", " ")
	if *sum != "" {
		os.WriteFile(*sum, b, 0644)
	}
	fmt.Println(string(b))
	return 0
}

func init() {
	commands["rec-reader"] = cmdRecReader
}
