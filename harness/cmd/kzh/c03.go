package main

// C03 driver: structure-aware mutants of valid streams decoded in child processes with a watchdog.

import (
	"bufio"
	"encoding/binary"
	"encoding/json"
	"flag"
	"fmt"
	"github.com/flanglet/kanzi-go/v2/bitstream"
	"github.com/flanglet/kanzi-go/v2/entropy"
	"io"
	"math/rand"
	"os"
	"os/exec"
	"path/filepath"
	"strings"
	"sync"
	"time"

	kio "github.com/flanglet/kanzi-go/v2/io"
	"kzverif/fio"
	"kzverif/gen"
	"kzverif/kz"
	"kzverif/kzfmt"
	"kzverif/tr"
)

type mutant struct {
	ID    int    `json:"id"`
	Base  string `json:"base"` // description of the base stream
	Mut   string `json:"mut"`  // description of the mutation
	Jobs  uint   `json:"jobs"`
	Bound int    `json:"bound"` // time bound in ms
	File  string `json:"file"`
}

// ---- child side ---------------------------------------------------------------------------------

// kzh child-decode <list.ndjson> <results.ndjson> : decodes every mutant of the list, one result line per
// mutant written (and flushed) before the next one starts. A watchdog ends the process when a Read call does
// not return within the bound of the mutant (exit code 97), a crash ends it with the Go runtime's code.
func cmdChildDecode(args []string) int {
	in, err := os.Open(args[0])
	if err != nil {
		return 2
	}
	defer in.Close()
	out, err := os.OpenFile(args[1], os.O_CREATE|os.O_WRONLY|os.O_APPEND, 0644)
	if err != nil {
		return 2
	}
	defer out.Close()
	start := 0
	if len(args) > 2 {
		fmt.Sscan(args[2], &start)
	}
	sc := bufio.NewScanner(in)
	sc.Buffer(make([]byte, 1<<20), 1<<24)
	k := 0
	for sc.Scan() {
		if k < start {
			k++
			continue
		}
		k++
		var m mutant
		if json.Unmarshal(sc.Bytes(), &m) != nil {
			return 2
		}
		data, err := os.ReadFile(m.File)
		if err != nil {
			return 2
		}
		// announce the mutant: if the process dies the parent knows which one it was
		fmt.Fprintf(out, "{\"id\":%d,\"status\":\"started\"}\n", m.ID)
		out.Sync()
		t0 := time.Now()
		done := make(chan struct{})
		go func(bound int, id int) {
			select {
			case <-done:
			case <-time.After(time.Duration(bound) * time.Millisecond):
				fmt.Fprintf(out, "{\"id\":%d,\"status\":\"hang\",\"ms\":%d}\n", id, time.Since(t0).Milliseconds())
				out.Sync()
				os.Exit(97)
			}
		}(m.Bound, m.ID)
		src := &fio.Source{Data: data}
		status := "ok"
		reads := 0
		total := 0
		r, err := kio.NewReaderWithCtx(src, kz.RCfg{Jobs: m.Jobs}.Ctx())
		if err != nil {
			status = "err"
		} else {
			buf := make([]byte, 1<<16)
			for {
				n, e := r.Read(buf)
				reads++
				total += n
				if e == io.EOF {
					break
				}
				if e != nil {
					status = "err"
					// a caller may call Read again after an error (bufio does): each further call must return as well
					for again := 0; again < 3; again++ {
						r.Read(buf[:1+again*977])
						reads++
					}
					break
				}
				if n == 0 && reads > 100000 {
					status = "noprogress"
					break
				}
				if total > 1<<31 {
					status = "err"
					break
				}
			}
			r.Close()
		}
		close(done)
		fmt.Fprintf(out, "{\"id\":%d,\"status\":\"%s\",\"ms\":%d,\"reads\":%d,\"bytes\":%d}\n", m.ID, status, time.Since(t0).Milliseconds(), reads, total)
		out.Sync()
	}
	return 0
}

// ---- parent side --------------------------------------------------------------------------------

type baseStream struct {
	desc   string
	w      kz.Cfg
	data   []byte
	stream []byte
	st     *kzfmt.Stream
}

func makeBase(rnd *rand.Rand, k int, thorough bool, big bool) *baseStream {
	var tf, en string
	switch rnd.Intn(5) {
	case 0:
		p := strings.Split(pick(rnd, levelPresets), "&")
		tf, en = p[0], p[1]
	case 1, 2:
		// transform headers directly visible on the wire
		tf, en = pick(rnd, transformNames), "NONE"
	case 3:
		tf, en = "NONE", pick(rnd, entropyNames)
	default:
		tf, en = randomChain(rnd), pick(rnd, entropyNames)
	}
	B := pick(rnd, []uint{1024, 2048, 4096, 16384, 65536})
	size := rnd.Intn(4*int(B)) + 1
	if size > 100000 {
		size = 100000
	}
	shape := pick(rnd, gen.Shapes)
	if big {
		// the multi-MiB regime of the inverse BWT (several primary indexes, helper goroutines)
		tf, en = pick(rnd, []string{"BWT", "BWT", "BWTS", "TEXT+BWT", "BWT+RANK+ZRLT"}), pick(rnd, []string{"NONE", "NONE", "ANS0", "HUFFMAN"})
		B = 8 << 20
		size = 5<<20 + rnd.Intn(1<<20)
		shape = pick(rnd, []string{"smallalpha", "text", "dna", "numeric"})
		if k%1000 == 0 {
			// the first big base of every run is the plain one: BWT header directly on the wire (systematic index forgeries below)
			tf, en = "BWT", "NONE"
		}
	}
	if slowEntropy(en) && size > 20000 {
		size = 20000
	}
	w := kz.Cfg{Transform: tf, Entropy: en, Block: B, Jobs: 1, Ck: pick(rnd, []uint{0, 0, 32, 64}), Hint: pick(rnd, []int64{-1, 0, int64(size)})}
	if big {
		w.Ck = pick(rnd, []uint{0, 0, 32})
		if k%1000 == 0 {
			w.Ck = 0
		}
	}
	data := gen.Make(shape, int64(k)*977+int64(size), size)
	stream, err := kz.Compress(data, w, nil, nil)
	if err != nil {
		return nil
	}
	st, perr := kzfmt.Parse(stream, false, 0)
	if perr != nil {
		return nil
	}
	return &baseStream{desc: fmt.Sprintf("%s&%s B=%d n=%d ck=%d %s", tf, en, B, size, w.Ck, shape), w: w, data: data, stream: stream, st: st}
}

type mutation struct {
	desc string
	data []byte
}

func clone(b []byte) []byte { return append([]byte(nil), b...) }

// mutations of one base stream: the field catalogue of KzFormat x mutation classes, plus unstructured ones
func mutate(b *baseStream, rnd *rand.Rand, perBase int) []mutation {
	var out []mutation
	add := func(desc string, d []byte) { out = append(out, mutation{desc, d}) }
	h := b.st.H
	vals := func(width int, cur uint64) []uint64 {
		maxv := uint64(1)<<uint(width) - 1
		if width >= 64 {
			maxv = ^uint64(0)
		}
		vs := []uint64{0, maxv, cur + 1, cur - 1, cur ^ 1, cur ^ (1 << uint(width-1)), uint64(rnd.Int63()) & maxv}
		return vs
	}
	setField := func(name string, off, width int, v uint64, fix bool) {
		d := clone(b.stream)
		if off+width > len(d)*8 {
			return
		}
		kzfmt.SetBits(d, off, width, v)
		if fix {
			kzfmt.FixHeaderChecksum(d)
		}
		add(fmt.Sprintf("%s@%d/%d=%d fix=%v", name, off, width, v, fix), d)
	}
	// header fields, with the header checksum recomputed so that the forgery gets past it
	type fld struct {
		name       string
		off, width int
		cur        uint64
	}
	flds := []fld{{"version", h.OffVersion, 4, uint64(h.Version)}, {"ckSize", h.OffCk, 2, uint64(h.CkSize)},
		{"entropy", h.OffEntropy, 5, uint64(h.Entropy)}, {"blockSize", h.OffBlockSize, 28, uint64(h.BlockSize >> 4)},
		{"szMask", h.OffSzMask, 2, uint64(h.SzMask)}, {"padding", h.OffPad, 15, 0}, {"hdrChecksum", h.OffChecksum, 24, uint64(h.Checksum)}}
	for s := 0; s < 8; s++ {
		flds = append(flds, fld{fmt.Sprintf("transform[%d]", s), h.OffTransform + 6*s, 6, (h.Transform >> uint(42-6*s)) & 0x3F})
	}
	if h.SzMask > 0 {
		flds = append(flds, fld{"origSize", h.OffSize, 16 * h.SzMask, uint64(h.OrigSize)})
	}
	for _, f := range flds {
		for _, v := range vals(f.width, f.cur) {
			if v != f.cur {
				setField(f.name, f.off, f.width, v, f.name != "hdrChecksum")
			}
		}
	}
	// every transform / entropy code, valid or not, in the header of a stream encoded otherwise
	for c := uint64(0); c < 32; c++ {
		setField("entropy", h.OffEntropy, 5, c, true)
	}
	for c := uint64(0); c < 64; c += 1 {
		if rnd.Intn(3) == 0 {
			setField("transform[0]", h.OffTransform, 6, c, true)
		}
		if rnd.Intn(6) == 0 {
			setField(fmt.Sprintf("transform[%d]", 1+rnd.Intn(7)), h.OffTransform+6*(1+rnd.Intn(7)), 6, c, true)
		}
	}
	// block frames
	for _, blk := range b.st.Blocks {
		for _, v := range vals(5, uint64(blk.LW-3)) {
			setField(fmt.Sprintf("blk%d.lw", blk.ID), blk.Start, 5, v, false)
		}
		for _, v := range append(vals(blk.LW, uint64(blk.LenBits)), uint64(blk.LenBits)+8, uint64(blk.LenBits)-8, uint64(blk.LenBits)*2) {
			setField(fmt.Sprintf("blk%d.len", blk.ID), blk.Start+5, blk.LW, v&(1<<uint(blk.LW)-1), false)
		}
		for _, v := range []uint64{0x00, 0x80, 0x10, 0x1F, 0x60, 0x7F, 0xFF, uint64(blk.Mode) ^ 0x0F, uint64(blk.Mode) ^ 0x60, uint64(blk.Mode) ^ 0x80, uint64(blk.Mode) ^ 0x10} {
			setField(fmt.Sprintf("blk%d.mode", blk.ID), blk.Payload, 8, v, false)
		}
		w := 8 * blk.DataSize
		for _, v := range vals(w, uint64(blk.PreLen)) {
			setField(fmt.Sprintf("blk%d.preLen", blk.ID), blk.OffPreLen, w, v, false)
		}
		if blk.HasSkip {
			for _, v := range []uint64{0, 0xFF, 0x0F, 0xF0, uint64(blk.SkipFlags) ^ 0x80, uint64(blk.SkipFlags) ^ 0x01} {
				setField(fmt.Sprintf("blk%d.skip", blk.ID), blk.Payload+8, 8, v, false)
			}
		}
		// codec headers: the first bytes of the entropy coded data (for entropy NONE these are the transform headers:
		// BWT primary indexes, LZ/ROLZ lengths and flags, alphabets, ...)
		nbytes := (blk.Payload + blk.LenBits - blk.OffEntropy) / 8
		for i := 0; i < nbytes && i < 24; i++ {
			cur := kzfmt.GetBits(b.stream, blk.OffEntropy+8*i, 8)
			for _, v := range []uint64{0, 0xFF, cur ^ 0x80, cur ^ 0x01, cur + 1} {
				if v&0xFF != cur {
					setField(fmt.Sprintf("blk%d.codec[%d]", blk.ID, i), blk.OffEntropy+8*i, 8, v&0xFF, false)
				}
			}
		}
		// a few random positions deeper in the payload
		for i := 0; i < 6 && nbytes > 24; i++ {
			p := 24 + rnd.Intn(nbytes-24)
			setField(fmt.Sprintf("blk%d.data[%d]", blk.ID, p), blk.OffEntropy+8*p, 8, uint64(rnd.Intn(256)), false)
		}
		if blk.ID >= 3 {
			break
		}
	}
	// end marker and unstructured mutations
	setField("endMarker", b.st.EndPos, 5, 1, false)
	setField("endMarker.len", b.st.EndPos+5, 3, 7, false)
	for i := 0; i < 10; i++ {
		d := clone(b.stream)
		for k := 0; k <= rnd.Intn(4); k++ {
			d[rnd.Intn(len(d))] = byte(rnd.Intn(256))
		}
		add("random-bytes", d)
	}
	for i := 0; i < 4; i++ {
		cut := rnd.Intn(len(b.stream))
		add(fmt.Sprintf("truncate@%d", cut), clone(b.stream[:cut]))
		d := clone(b.stream)
		p := rnd.Intn(len(d))
		q := rnd.Intn(len(d))
		if p > q {
			p, q = q, p
		}
		add(fmt.Sprintf("splice[%d:%d]", p, q), append(clone(d[:p]), d[q:]...))
		g := make([]byte, 1+rnd.Intn(64))
		rnd.Read(g)
		add("append-garbage", append(clone(d), g...))
	}
	add("identity", clone(b.stream))
	add("empty", []byte{})
	g := make([]byte, 64)
	rnd.Read(g)
	binary.BigEndian.PutUint32(g, kzfmt.Magic)
	add("magic+garbage", g)
	// sample perBase of them (identity always kept)
	if perBase > 0 && len(out) > perBase {
		rnd.Shuffle(len(out)-1, func(i, j int) { out[i], out[j] = out[j], out[i] })
		out = append(out[:perBase-1], out[len(out)-1])
	}
	return out
}

// copyBits appends n bits of src starting at bit `from` to dst at bit position *pos
func copyBits(dst *[]byte, pos *int, src []byte, from, n int) {
	for i := 0; i < n; i++ {
		for *pos/8 >= len(*dst) {
			*dst = append(*dst, 0)
		}
		if src[(from+i)/8]>>(7-uint((from+i)%8))&1 == 1 {
			(*dst)[*pos/8] |= 1 << (7 - uint(*pos%8))
		}
		*pos++
	}
}

// reframe: block `bi` keeps only the first newBits bits of its frame, the length field says so, and the end marker follows at once:
// a well-formed container around a frame that is too short for what its codec wants to read
func reframe(b *baseStream, bi int, newBits int) []byte {
	blk := b.st.Blocks[bi]
	var d []byte
	pos := 0
	copyBits(&d, &pos, b.stream, 0, blk.Start+5)
	lenField := make([]byte, 8)
	kzfmt.SetBits(lenField, 0, blk.LW, uint64(newBits))
	copyBits(&d, &pos, lenField, 0, blk.LW)
	copyBits(&d, &pos, b.stream, blk.Payload, newBits)
	copyBits(&d, &pos, b.stream, b.st.EndPos, b.st.EndBits-b.st.EndPos)
	return d
}

// frameMutations: every frame length from one byte to a few bytes beyond the frame head, and some deeper cuts
func frameMutations(b *baseStream) []mutation {
	var out []mutation
	for bi := range b.st.Blocks {
		if bi >= 2 {
			break
		}
		blk := b.st.Blocks[bi]
		seen := map[int]bool{}
		try := func(nb int) {
			if nb < 1 || nb >= blk.LenBits || seen[nb] {
				return
			}
			seen[nb] = true
			d := reframe(b, bi, nb)
			out = append(out, mutation{fmt.Sprintf("blk%d.reframe=%dbits", blk.ID, nb), d})
			// the short frame with the first word of the codec data (the size / offset fields of the transform headers when the
			// entropy codec is NONE) forged to zero, to one and to the largest value
			if nb >= blk.HeadBits+32 && (nb-blk.HeadBits)%8 == 0 && b.w.Entropy == "NONE" && b.w.Transform != "NONE" {
				at := blk.Start + 5 + blk.LW + blk.HeadBits
				// (with entropy NONE the length field of the frame head counts the bytes that follow: keep the frame consistent)
				plen := blk.Start + 5 + blk.LW + (blk.OffPreLen - blk.Payload)
				for _, v := range []uint64{0, 0xFFFFFFFF, 1} {
					if v == 1 && bi > 0 {
						continue
					}
					g := clone(d)
					kzfmt.SetBits(g, at, 32, v)
					kzfmt.SetBits(g, plen, 8*blk.DataSize, uint64((nb-blk.HeadBits)/8))
					out = append(out, mutation{fmt.Sprintf("blk%d.reframe=%dbits word0=%#x consistent", blk.ID, nb, v), g})
				}
				g := clone(d)
				kzfmt.SetBits(g, plen, 8*blk.DataSize, uint64((nb-blk.HeadBits)/8))
				out = append(out, mutation{fmt.Sprintf("blk%d.reframe=%dbits consistent", blk.ID, nb), g})
			}
		}
		for k := 1; k <= blk.HeadBits/8+20; k++ {
			try(8 * k)
		}
		for _, k := range []int{blk.HeadBits + 1, blk.HeadBits + 7, blk.HeadBits + 33, blk.LenBits / 2 &^ 7, blk.LenBits - 8, blk.LenBits - 64, blk.LenBits - 1, blk.LenBits - 72} {
			try(k)
		}
	}
	return out
}

// ---- frames built from scratch around forged transform payloads ------------------------------------------------------------
type memSink struct{ b []byte }

func (m *memSink) Write(p []byte) (int, error) { m.b = append(m.b, p...); return len(p), nil }
func (m *memSink) Close() error                { return nil }

// reframe1 builds a one-block stream: the genuine header hdr (a whole number of bytes), then a frame whose transform payload is
// `payload`, entropy coded by the real encoder of type etype, then the end marker. The block checksum field (if the header
// announces one) holds an arbitrary value: the stages in front of the checksum test are the ones under test.
func reframe1(hdr []byte, ckBits int, payload []byte, ename string) ([]byte, error) {
	frame := &memSink{}
	fbs, _ := bitstream.NewDefaultOutputBitStream(frame, 16384)
	ds := 1
	for ds < 4 && len(payload) >= 1<<uint(8*ds) {
		ds++
	}
	fbs.WriteBits(uint64((ds-1)<<5), 8) // mode: size of the length field, no stage skipped
	fbs.WriteBits(uint64(len(payload)), uint(8*ds))
	if ckBits > 0 {
		fbs.WriteBits(0x123456789ABCDEF0>>uint(64-ckBits), uint(ckBits))
	}
	et, err := entropy.GetType(ename)
	if err != nil {
		return nil, err
	}
	ee, err := entropy.NewEntropyEncoder(fbs, map[string]any{}, et)
	if err != nil {
		return nil, err
	}
	if _, err = ee.Write(payload); err != nil {
		return nil, err
	}
	ee.Dispose()
	fbs.Close()
	written := fbs.Written()
	out := &memSink{}
	out.Write(hdr)
	obs, _ := bitstream.NewDefaultOutputBitStream(out, 16384)
	lw := uint(3)
	for (uint64(1) << lw) <= written {
		lw++
	}
	obs.WriteBits(uint64(lw-3), 5)
	obs.WriteBits(written, lw)
	obs.WriteArray(frame.b, uint(written))
	obs.WriteBits(0, 8) // end marker
	obs.Close()
	return out.b, nil
}

// lzLiteralOnly is the output format of the LZ / LZX forward transform for a block that is one literal run of litLen equal bytes and
// no match: three little-endian offsets, a flag byte, the literal length, the literals, one token
func lzLiteralOnly(litLen int, fill byte) []byte {
	var lenEnc []byte
	ll := litLen - 7
	switch {
	case ll < 254:
		lenEnc = []byte{byte(ll)}
	case ll < 65536+254:
		v := ll - 254
		lenEnc = []byte{254, byte(v >> 8), byte(v)}
	default:
		v := ll - 255
		lenEnc = []byte{255, byte(v >> 16), byte(v >> 8), byte(v)}
	}
	tk := 13 + len(lenEnc) + litLen
	le32 := func(v int) []byte { return []byte{byte(v), byte(v >> 8), byte(v >> 16), byte(v >> 24)} }
	blk := append([]byte{}, le32(tk)...)
	blk = append(blk, le32(1)...)
	blk = append(blk, le32(0)...)
	blk = append(blk, 0)
	blk = append(blk, lenEnc...)
	for i := 0; i < litLen; i++ {
		blk = append(blk, fill)
	}
	return append(blk, 0xE0)
}

// bombMutations: forged transform payloads that are small on the wire and ask the inverse transform for more output than a reader
// of the declared block size provides (a literal run longer than the block for LZ / LZX), behind every entropy codec
func bombMutations(seed int64) (*baseStream, []mutation) {
	var out []mutation
	var first *baseStream
	for _, tf := range []string{"LZ", "LZX"} {
		for _, B := range []uint{1024, 4096, 16384, 65536} {
			for ci, ck := range []uint{0, 32} {
				w := kz.Cfg{Transform: tf, Entropy: "NONE", Block: B, Jobs: 1, Ck: ck, Hint: -1}
				for ei, en := range []string{"ANS0", "HUFFMAN", "NONE", "FPAQ", "RANGE"} {
					w.Entropy = en
					valid, err := kz.Compress(gen.Make("text", seed, 300), w, nil, nil)
					if err != nil {
						continue
					}
					st, perr := kzfmt.Parse(valid, false, 0)
					if perr != nil || st.H.Bits%8 != 0 {
						continue
					}
					if first == nil {
						first = &baseStream{desc: "forged transform payloads (LZ literal-only blocks)", w: w, stream: valid, st: st}
					}
					hdr := valid[:st.H.Bits/8]
					// the reader accepts a transformed block of up to about 1.5 x block size
					for li, litLen := range []int{int(B) + 1, int(B) + int(B)/16 + 600, int(B) + int(B)/3, int(B) - 1, 3 * int(B) / 2} {
						d, e := reframe1(hdr, int(ck), lzLiteralOnly(litLen, byte('A'+(ci+ei+li)%20)), en)
						if e == nil {
							out = append(out, mutation{fmt.Sprintf("forged %s&%s B=%d ck=%d: literal-only block of %d bytes", tf, en, B, ck, litLen), d})
						}
					}
				}
			}
		}
	}
	return first, out
}

// shrinkMutations: the declared block size forged to smaller legal values (header checksum recomputed). The frames are small (the
// data compress well), so they pass the frame-size test, but every stage wants to produce far more than the buffers of a reader
// that believes the header can hold: inverse transforms and entropy decoders must notice on their own.
func shrinkMutations(b *baseStream) []mutation {
	var out []mutation
	h := b.st.H
	for _, v := range []int{1024, 2048, 4096, 16384, 32768} {
		if v >= h.BlockSize {
			continue
		}
		d := clone(b.stream)
		kzfmt.SetBits(d, h.OffBlockSize, 28, uint64(v>>4))
		kzfmt.FixHeaderChecksum(d)
		out = append(out, mutation{fmt.Sprintf("hdr.blockSize=%d (really %d)", v, h.BlockSize), d})
	}
	return out
}

// shrinkBases: every transform (entropy NONE / ANS0 / HUFFMAN in turn) and every entropy codec on well compressible data, 64 KiB blocks
func shrinkBases(seed int64) []*baseStream {
	var out []*baseStream
	mk := func(tf, en string, k int) {
		shape := []string{"zeros", "runs", "text", "sparse", "dna"}[k%5]
		size := 65536 + 30000 + 16*k
		w := kz.Cfg{Transform: tf, Entropy: en, Block: 65536, Jobs: 1, Ck: []uint{0, 32}[k%2], Hint: -1}
		data := gen.Make(shape, seed*37+int64(k), size)
		stream, err := kz.Compress(data, w, nil, nil)
		if err != nil {
			return
		}
		st, perr := kzfmt.Parse(stream, false, 0)
		if perr != nil || len(st.Blocks) == 0 {
			return
		}
		out = append(out, &baseStream{desc: fmt.Sprintf("%s&%s B=65536 n=%d ck=%d %s", tf, en, size, w.Ck, shape), w: w, data: data, stream: stream, st: st})
	}
	k := 0
	for _, tf := range transformNames[1:] {
		for _, en := range []string{"NONE", []string{"ANS0", "HUFFMAN", "FPAQ"}[k%3]} {
			mk(tf, en, k)
			k++
		}
	}
	for _, en := range entropyNames[1:] {
		mk("NONE", en, k)
		mk("LZ", en, k+1)
		k += 2
	}
	return out
}

// frameBases: every entropy codec x checksum on untransformed data, every transform with entropy NONE
func frameBases(seed int64) []*baseStream {
	var out []*baseStream
	mk := func(tf, en string, ck uint, k int) {
		shape := []string{"text", "skew", "dna", "mixed", "exe"}[k%5]
		size := 2500 + 37*k
		w := kz.Cfg{Transform: tf, Entropy: en, Block: 2048, Jobs: 1, Ck: ck, Hint: -1}
		data := gen.Make(shape, seed*31+int64(k), size)
		stream, err := kz.Compress(data, w, nil, nil)
		if err != nil {
			return
		}
		st, perr := kzfmt.Parse(stream, false, 0)
		if perr != nil || len(st.Blocks) == 0 {
			return
		}
		out = append(out, &baseStream{desc: fmt.Sprintf("%s&%s B=2048 n=%d ck=%d %s", tf, en, size, ck, shape), w: w, data: data, stream: stream, st: st})
	}
	k := 0
	for _, en := range entropyNames {
		for _, ck := range []uint{0, 32, 64} {
			mk("NONE", en, ck, k)
			k++
		}
	}
	for _, tf := range transformNames[1:] {
		mk(tf, "NONE", 0, k)
		mk(tf, "NONE", []uint{32, 64}[k%2], k+1)
		k += 2
	}
	return out
}

// bigMutations: forged primary indexes and headers of the multi-MiB BWT regime
func bigMutations(b *baseStream, rnd *rand.Rand) []mutation {
	var out []mutation
	blk := b.st.Blocks[0]
	off := blk.OffEntropy / 8
	if b.w.Transform == "BWT" && b.w.Entropy == "NONE" && blk.OffEntropy%8 == 0 && blk.Mode&0x80 == 0 && blk.SkipFlags&0x80 == 0 {
		// the BWT header is on the wire: mode byte (log2 of the number of chunks, index size), then one primary index per chunk.
		// Every secondary index is forged to the values around the limits a decoder may compare it with: the block length, the
		// declared block size (the size of the decoder's buffers), the largest value the field can hold, zero.
		mode := b.stream[off]
		chunks := 1 << uint((mode>>2)&7)
		isz := int(mode&3) + 1
		count := blk.PreLen - (1 + chunks*isz)
		maxv := uint64(1)<<uint(8*isz) - 1
		vals := []uint64{uint64(count) + 1, uint64(count) + 2, uint64(count) + 4096, uint64(b.w.Block), uint64(b.w.Block) + 1, uint64(b.w.Block) - 1, maxv, maxv - 1, 0, 1, uint64(count), uint64(count) - 1}
		for ci := 1; ci < chunks; ci++ {
			if ci != 1 && ci != chunks-1 && ci != chunks/2 {
				continue
			}
			for _, v := range vals {
				if v > maxv+1 || v == 0 && false {
					continue
				}
				d := clone(b.stream)
				stored := (v - 1) & maxv // the field holds the index minus one
				for k := 0; k < isz; k++ {
					d[off+1+ci*isz+k] = byte(stored >> uint(8*(isz-1-k)))
				}
				out = append(out, mutation{fmt.Sprintf("big.bwtIndex[%d]=%d (block length %d, block size %d)", ci, v, count, b.w.Block), d})
			}
		}
	}
	for i := 0; i < 24; i++ {
		for _, x := range []byte{0x80, 0xFF} {
			if x == 0xFF && i%4 != 0 {
				continue
			}
			if b.w.Entropy != "NONE" && (i%6 != 0 || x != 0x80) {
				continue
			}
			d := clone(b.stream)
			if off+i >= len(d) {
				continue
			}
			d[off+i] ^= x
			out = append(out, mutation{fmt.Sprintf("big.codec[%d]^%02x", i, x), d})
		}
	}
	return out
}

func cmdC03(args []string) int {
	fs := flag.NewFlagSet("c03", flag.ExitOnError)
	nbase := fs.Int("bases", 20, "number of base streams")
	nbig := fs.Int("big", 0, "number of multi-MiB BWT base streams")
	perBase := fs.Int("per", 60, "mutants per base stream (0 = all)")
	seed := fs.Int64("seed", 1, "seed")
	out := fs.String("out", "trace.ndjson", "trace file")
	sum := fs.String("sum", "", "summary file")
	dir := fs.String("dir", "", "scratch directory")
	thorough := fs.Bool("thorough", false, "thorough")
	frames := fs.Bool("frames", false, "add the short-frame family (every codec x checksum, every frame length around the frame head)")
	par := fs.Int("par", 8, "parallel children")
	fs.Parse(args)
	rnd := rand.New(rand.NewSource(*seed*6151 + 3))
	os.MkdirAll(*dir, 0755)
	var muts []mutant
	id := 0
	addAll := func(b *baseStream, ms []mutation, bound int) {
		for _, m := range ms {
			f := filepath.Join(*dir, fmt.Sprintf("m%06d.knz", id))
			os.WriteFile(f, m.data, 0644)
			muts = append(muts, mutant{ID: id, Base: b.desc, Mut: m.desc, Jobs: pick(rnd, []uint{1, 1, 2, 3, 4, 8}), Bound: bound, File: f})
			id++
		}
	}
	for k := 0; k < *nbase; k++ {
		b := makeBase(rnd, k+int(*seed)*1000, *thorough, false)
		if b == nil {
			continue
		}
		// bound: generous multiple of what the declared sizes can justify (valid decode of these takes milliseconds)
		addAll(b, mutate(b, rnd, *perBase), 45000)
	}
	if *frames {
		for _, b := range frameBases(*seed) {
			addAll(b, frameMutations(b), 20000)
		}
		for _, b := range shrinkBases(*seed) {
			addAll(b, shrinkMutations(b), 20000)
		}
		if b, ms := bombMutations(*seed); b != nil {
			addAll(b, ms, 20000)
		}
	}
	for k := 0; k < *nbig; k++ {
		b := makeBase(rnd, 5000+k+int(*seed)*1000, *thorough, true)
		if b == nil {
			continue
		}
		addAll(b, bigMutations(b, rnd), 60000)
	}
	// split over children
	self, _ := os.Executable()
	nchild := *par
	if nchild > len(muts) {
		nchild = max(1, len(muts))
	}
	results := make([]map[string]any, len(muts))
	var wg sync.WaitGroup
	var mu sync.Mutex
	for c := 0; c < nchild; c++ {
		wg.Add(1)
		go func(c int) {
			defer wg.Done()
			var mine []mutant
			for i := c; i < len(muts); i += nchild {
				mine = append(mine, muts[i])
			}
			listf := filepath.Join(*dir, fmt.Sprintf("list%d.ndjson", c))
			resf := filepath.Join(*dir, fmt.Sprintf("res%d.ndjson", c))
			lf, _ := os.Create(listf)
			for _, m := range mine {
				b, _ := json.Marshal(m)
				lf.Write(b)
				lf.Write([]byte("\n"))
			}
			lf.Close()
			os.Remove(resf)
			start := 0
			for start < len(mine) {
				cmd := exec.Command(self, "child-decode", listf, resf, fmt.Sprint(start))
				var stderr strings.Builder
				cmd.Stderr = &stderr
				err := cmd.Run()
				// read results so far
				done := map[int]map[string]any{}
				lastStarted := -1
				if f, e := os.Open(resf); e == nil {
					sc := bufio.NewScanner(f)
					for sc.Scan() {
						var r map[string]any
						if json.Unmarshal(sc.Bytes(), &r) == nil {
							rid := int(r["id"].(float64))
							if r["status"] == "started" {
								lastStarted = rid
							} else {
								done[rid] = r
							}
						}
					}
					f.Close()
				}
				progressed := start
				for i := start; i < len(mine); i++ {
					if r, ok := done[mine[i].ID]; ok {
						mu.Lock()
						results[mine[i].ID] = r
						mu.Unlock()
						progressed = i + 1
					} else {
						break
					}
				}
				if err == nil {
					break
				}
				// the child died on mutant lastStarted (crash) or reported a hang and exited
				if progressed < len(mine) && mine[progressed].ID == lastStarted {
					msg := stderr.String()
					if len(msg) > 600 {
						msg = msg[:600]
					}
					mu.Lock()
					results[lastStarted] = map[string]any{"id": lastStarted, "status": "crash", "ms": 0, "stderr": msg, "exit": err.Error()}
					mu.Unlock()
					progressed++
				} else if progressed == start {
					// no progress at all: avoid an endless loop
					progressed++
				}
				start = progressed
			}
		}(c)
	}
	wg.Wait()
	// a hang observed while many children were running may be an artefact of the load: decode the mutant again, alone
	for i, m := range muts {
		r := results[i]
		if r == nil || r["status"] != "hang" {
			continue
		}
		listf := filepath.Join(*dir, "confirm.ndjson")
		resf := filepath.Join(*dir, "confirm.res")
		// ... with a three times longer bound: other processes of the machine may still be competing for memory and cores (a forged
		// block size of 1 GB makes every task allocate that much; alone it takes seconds, 45 s were once exceeded under external load)
		m3 := m
		m3.Bound = 3 * m.Bound
		b, _ := json.Marshal(m3)
		os.WriteFile(listf, append(b, '\n'), 0644)
		os.Remove(resf)
		exec.Command(self, "child-decode", listf, resf).Run()
		confirmed := map[string]any{"id": m.ID, "status": "hang", "ms": float64(m3.Bound), "stderr": "confirmed alone"}
		if f, e := os.Open(resf); e == nil {
			sc := bufio.NewScanner(f)
			for sc.Scan() {
				var rr map[string]any
				if json.Unmarshal(sc.Bytes(), &rr) == nil && rr["status"] != "started" {
					confirmed = rr
				}
			}
			f.Close()
		}
		results[i] = confirmed
	}
	w, err := tr.Open(*out)
	if err != nil {
		return 2
	}
	s := recSummary{ByMode: map[string]int{}}
	distinct := map[string]bool{}
	for i, m := range muts {
		r := results[i]
		if r == nil {
			r = map[string]any{"status": "unknown", "ms": 0}
		}
		ms, _ := r["ms"].(float64)
		st, _ := r["status"].(string)
		desc, _ := json.Marshal(m)
		se, _ := r["stderr"].(string)
		r["stderr"] = se
		w.Emit(tr.Ev{"ev": "CHILD", "id": m.ID, "status": st, "ms": int(ms), "bound": m.Bound, "jobs": m.Jobs, "mut": m.Mut, "base": m.Base, "desc": string(desc), "stderr": r["stderr"]})
		s.Runs++
		s.ByMode[st]++
		if m.Mut != "identity" {
			distinct[m.Base+"|"+m.Mut] = true
		}
		if len(s.Samples) < 4 {
			s.Samples = append(s.Samples, m)
		}
	}
	w.Close()
	s.Distinct = len(distinct)
	s.Events = len(muts)
	b, _ := json.MarshalIndent(s, "", " ")
	if *sum != "" {
		os.WriteFile(*sum, b, 0644)
	}
	fmt.Println(string(b))
	return 0
}

func init() {
	commands["c03"] = cmdC03
	commands["child-decode"] = cmdChildDecode
}
