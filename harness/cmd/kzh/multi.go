package main

// Driver for C18: K pipelines (Writer + Reader) run concurrently with perturbed schedules; each must produce exactly
// what it produces when run alone. Built with -race the same runs expose data races (the race detector is the observer
// of memory accesses; TLA+ supplies the ownership discipline, see KzWriter/KzReader W_Ownership / R_Ownership).

import (
	"flag"
	"fmt"
	"math/rand"
	"os"
	"strings"
	"sync"

	"kzverif/gen"
	"kzverif/hk"
	"kzverif/kz"
	"kzverif/tr"
)

type pipe struct {
	w     kz.Cfg
	rjobs uint
	shape string
	size  int
	seed  int64
	parts []int
	lens  []int
}

func runPipe(p pipe, perturb int) (string, string, string) {
	data := gen.Make(p.shape, p.seed, p.size)
	rec := hk.NewRec(p.seed)
	rec.Perturb = perturb
	rec.Digest = map[int]bool{}
	wev, rev := &kz.Collector{}, &kz.Collector{}
	evDig := func(c *kz.Collector) string {
		if p.w.Verbosity == 0 {
			return ""
		}
		// the positions reported to the listeners belong to the results of the pipeline
		return "+events:" + tr.Dig([]byte(strings.Join(c.Sorted(), "\n")))
	}
	p.w.Events = wev
	stream, err := kz.Compress(data, p.w, p.parts, rec.Func())
	if err != nil {
		return "werr:" + errText(err), "", tr.Dig(data)
	}
	rec2 := hk.NewRec(p.seed + 1)
	rec2.Perturb = perturb
	rec2.Digest = map[int]bool{}
	out, err := kz.Decompress(stream, kz.RCfg{Jobs: p.rjobs, W: &p.w, OrigSize: int64(len(data)), Verbosity: p.w.Verbosity, Events: rev}, nil, p.lens, rec2.Func(), len(data)+1<<20)
	if err != nil {
		return tr.Dig(stream) + evDig(wev), "rerr:" + errText(err), tr.Dig(data)
	}
	return tr.Dig(stream) + evDig(wev) + evDig(rev), tr.Dig(out), tr.Dig(data)
}

func cmdMulti(args []string) int {
	fs := flag.NewFlagSet("multi", flag.ExitOnError)
	n := fs.Int("n", 24, "pipelines per round")
	rounds := fs.Int("rounds", 2, "rounds")
	seed := fs.Int64("seed", 1, "seed")
	out := fs.String("out", "trace.ndjson", "trace")
	thorough := fs.Bool("thorough", false, "thorough")
	scale := fs.Int("scale", 100, "size of the data in percent (the race build is slow)")
	big := fs.Int("big", 1, "pipelines with one BWT block above 4 MiB (first round only)")
	fs.Parse(args)
	w, err := tr.Open(*out)
	if err != nil {
		return 2
	}
	rnd := rand.New(rand.NewSource(*seed*313 + 5))
	total := 0
	for r := 0; r < *rounds; r++ {
		var pipes []pipe
		// every transform and every entropy codec twice, on data that activates it, several blocks, several jobs:
		// each codec runs concurrently with itself (other instance and other task) and with all the others
		shapeFor := map[string][]string{"TEXT": {"text"}, "UTF": {"utf8", "utf8wide"}, "DNA": {"dnarep", "dna"}, "PACK": {"hex", "smallalpha"}, "EXE": {"x86"},
			"MM": {"bmptile", "wav"}, "ROLZ": {"html", "dnarep"}, "ROLZX": {"html", "text"}, "LZ": {"html"}, "LZX": {"html"}, "LZP": {"dnarep"}, "RLT": {"runs"},
			"ZRLT": {"sparse"}, "BWT": {"text"}, "BWTS": {"text"}, "SRT": {"text"}, "RANK": {"runs"}, "MTFT": {"runs"}, "NONE": {"mixed"}}
		addPipe := func(tf, en, shape string, size int, k int) {
			B := uint(4096)
			size = size * *scale / 100
			pipes = append(pipes, pipe{w: kz.Cfg{Transform: tf, Entropy: en, Block: B, Jobs: pick(rnd, []uint{2, 3, 4}), Ck: pick(rnd, []uint{0, 32, 64}), Hint: -1},
				rjobs: pick(rnd, []uint{2, 4, 8}), shape: shape, size: size, seed: *seed*7717 + int64(r*1000+k), parts: nil, lens: pick(rnd, [][]int{nil, {1024}, {65536}, {4096}})})
		}
		k := 0
		for _, tf := range transformNames {
			for c := 0; c < 2; c++ {
				addPipe(tf, pick(rnd, []string{"NONE", "HUFFMAN", "ANS0"}), pick(rnd, shapeFor[tf]), 30000, k)
				k++
			}
		}
		for _, en := range entropyNames {
			sz := 30000
			if slowEntropy(en) {
				sz = 9000
			}
			for c := 0; c < 2; c++ {
				addPipe(pick(rnd, []string{"NONE", "TEXT", "LZ"}), en, "text", sz, k)
				k++
			}
		}
		for i := 0; i < *n; i++ {
			run, _ := planWriterRun("c18", r*1000+i, *seed, *thorough)
			size := run.Size
			if size > 60000 {
				size = 60000
			}
			if slowEntropy(run.W.Entropy) && size > 6000 {
				size = 6000
			}
			if i < len(levelPresets) {
				a := lastAmp(levelPresets[i])
				run.W.Transform, run.W.Entropy = levelPresets[i][:a], levelPresets[i][a+1:]
				run.Shape = pick(rnd, []string{"text", "mixed", "utf8", "x86", "dnarep"})
				if slowEntropy(run.W.Entropy) {
					size = 6000
				} else {
					size = 40000
				}
			}
			size = size * *scale / 100
			run.W.Headerless = false
			run.W.Jobs = pick(rnd, []uint{1, 2, 3, 4, 8, 16})
			pipes = append(pipes, pipe{w: run.W, rjobs: pick(rnd, []uint{1, 2, 4, 8, 16}), shape: run.Shape, size: size, seed: run.Seed, parts: run.Parts, lens: pick(rnd, [][]int{nil, {1024}, {7, 1, 300}, {65536}, {3, 70000}, {4096}})})
		}
		// one block in the multi-MiB regime of the inverse BWT, its size recorded in the header, more jobs than blocks: the Reader
		// hands all its jobs to the one block and the inverse BWT runs its chunk tasks concurrently (helper goroutines inside a task)
		if r == 0 {
			for bi := 0; bi < *big; bi++ {
				size := 4<<20 + 70001 + 4096*bi
				pipes = append(pipes, pipe{w: kz.Cfg{Transform: []string{"BWT", "TEXT+BWT"}[bi%2], Entropy: "NONE", Block: 8 << 20, Jobs: 2, Ck: 32, Hint: int64(size)},
					rjobs: []uint{4, 8, 3}[bi%3], shape: "text", size: size, seed: *seed*7717 + int64(9000+bi), parts: nil, lens: nil})
			}
		}
		// every third pipeline with a listener and the verbosity of the command line tool's -v 5 (BLOCK_INFO events)
		for i := range pipes {
			if i%3 == 1 {
				pipes[i].w.Verbosity = 5
			}
		}
		// alone, one after the other
		iso := make([][3]string, len(pipes))
		for i, p := range pipes {
			a, b, c := runPipe(p, 0)
			iso[i] = [3]string{a, b, c}
		}
		// all together, schedules perturbed at the hooks
		conc := make([][3]string, len(pipes))
		var wg sync.WaitGroup
		for i := range pipes {
			wg.Add(1)
			go func(i int) {
				defer wg.Done()
				a, b, c := runPipe(pipes[i], 3)
				conc[i] = [3]string{a, b, c}
			}(i)
		}
		wg.Wait()
		for i, p := range pipes {
			w.Emit(tr.Ev{"ev": "MULTI", "round": r, "i": i, "cfg": fmt.Sprintf("%s&%s B=%d wj=%d rj=%d %s n=%d", p.w.Transform, p.w.Entropy, p.w.Block, p.w.Jobs, p.rjobs, p.shape, p.size),
				"isoStream": iso[i][0], "concStream": conc[i][0], "isoOut": iso[i][1], "concOut": conc[i][1], "orig": iso[i][2]})
			total++
		}
	}
	w.Close()
	fmt.Fprintln(os.Stdout, total)
	return 0
}

func lastAmp(s string) int {
	for i := len(s) - 1; i >= 0; i-- {
		if s[i] == '&' {
			return i
		}
	}
	return -1
}

func init() {
	commands["multi"] = cmdMulti
}
