package main

// Re-execution of a recorded run from its descriptor (used by `check --replay` and for diagnosis).

import (
	"encoding/json"
	"fmt"
	"os"

	"kzverif/gen"
	"kzverif/kzfmt"
	"kzverif/tr"
)

// kzh rerun-writer '<run json>' : prints the API-level events of the run
func cmdRerunWriter(args []string) int {
	var run writerRun
	if err := json.Unmarshal([]byte(args[0]), &run); err != nil {
		fmt.Fprintln(os.Stderr, err)
		return 2
	}
	data := gen.Make(run.Shape, run.Seed, run.Size)
	evs, _ := execWriterRun(&run, data)
	printAPI(evs, len(args) > 1)
	return 0
}

func printAPI(evs []tr.Ev, all bool) {
	for _, e := range evs {
		ev := e["ev"].(string)
		if all || ev == "Write" || ev == "Close" || ev == "Read" || ev == "GetWritten" || ev == "Note" || ev == "E_FIN0" || ev == "D_FIN0" || ev == "S_WRITE" {
			delete(e, "desc")
			b, _ := json.Marshal(e)
			fmt.Println(string(b))
		}
	}
}

func init() {
	commands["rerun-writer"] = cmdRerunWriter
}

// kzh parse <file>... : per stream, the skip flags of its blocks as seen by the independent parser
func cmdParse(args []string) int {
	for _, f := range args {
		b, err := os.ReadFile(f)
		if err != nil {
			fmt.Printf("{\"file\":%q,\"err\":%q}\n", f, err.Error())
			continue
		}
		st, perr := kzfmt.Parse(b, false, 0)
		var skips []int
		for _, blk := range st.Blocks {
			if blk.Mode&0x80 != 0 {
				skips = append(skips, 256)
			} else {
				skips = append(skips, int(blk.SkipFlags))
			}
		}
		js, _ := json.Marshal(skips)
		// entropy-coded data of each block as [first bit, end bit): where a modification is confined to a block payload
		var spans [][2]int
		for _, blk := range st.Blocks {
			spans = append(spans, [2]int{blk.OffEntropy, blk.Payload + blk.LenBits})
		}
		sp, _ := json.Marshal(spans)
		fmt.Printf("{\"file\":%q,\"ok\":%v,\"skips\":%s,\"spans\":%s}\n", f, perr == nil, js, sp)
	}
	return 0
}

func init() {
	commands["parse"] = cmdParse
}
