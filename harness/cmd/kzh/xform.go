package main

// Driver for C13: every transform against the contract the transform sequence relies on (specs/KzSequence.tla):
// success => output fits in MaxEncodedLen and the inverse restores the block into a buffer of the size the
// decompressor provides; decline => the input block is unmodified; no fault in either direction.

import (
	"encoding/json"
	"flag"
	"fmt"
	"math/rand"
	"os"
	"reflect"
	"strings"
	"sync"

	kanzi "github.com/flanglet/kanzi-go/v2"
	"github.com/flanglet/kanzi-go/v2/transform"
	"kzverif/gen"
	"kzverif/tr"
)

type xformCase struct {
	ID    int    `json:"id"`
	T     string `json:"t"` // transform name, or a chain "A+B+C" (then built with transform.New)
	Shape string `json:"shape"`
	Size  int    `json:"size"`
	Seed  int64  `json:"seed"`
	Hint  int    `json:"hint"` // -1 = no data type in the context; k >= 0: the data type that classifier stage classifiers[k] leaves for THIS block
	// (the event reports the integer value of the type that was found, or -1 when the classifier left none)
	Entropy string `json:"entropy"` // entropy codec name in the context (selects TEXT variants)
	Jobs    uint   `json:"jobs"`
	// Warm: shape of a block that the SAME forward / inverse objects process first (context-free constructors only: a context would
	// carry the data type of the first block over to the second, which the stream layer never does)
	Warm string `json:"warm,omitempty"`
}

// harvested values of the (internal) data type enumeration, indexed by their integer value
var dtValues = map[int]any{}
var dtOnce sync.Once

func harvestDataTypes() {
	dtOnce.Do(func() {
		try := func(name string, shape string) {
			for _, size := range []int{5000, 70000} {
				ctx := baseCtx("NONE", 1, size)
				t, err := newSingle(name, &ctx)
				if err != nil {
					continue
				}
				src := gen.Make(shape, 99, size)
				dst := make([]byte, t.MaxEncodedLen(size))
				func() {
					defer func() { recover() }()
					t.Forward(src, dst)
				}()
				if v, ok := ctx["dataType"]; ok {
					rv := reflect.ValueOf(v)
					if rv.CanInt() {
						dtValues[int(rv.Int())] = v
					}
				}
			}
		}
		for _, shape := range gen.Shapes {
			try("EXE", shape)
			try("TEXT", shape)
			try("UTF", shape)
			try("MM", shape)
			try("ROLZ", shape)
			try("PACK", shape)
		}
	})
}

func baseCtx(entropy string, jobs uint, size int) map[string]any {
	bs := uint((size + 15) &^ 15)
	if bs < 1024 {
		bs = 1024
	}
	return map[string]any{"entropy": entropy, "jobs": jobs, "bsVersion": uint(6), "blockSize": bs, "size": uint(size), "transform": "NONE"}
}

// newSingle builds one transform the way the factory does, without the sequence wrapper
func newSingle(name string, ctx *map[string]any) (kanzi.ByteTransform, error) {
	(*ctx)["transform"] = name
	switch name {
	case "NONE":
		return transform.NewNullTransformWithCtx(ctx)
	case "BWT":
		return transform.NewBWTBlockCodecWithCtx(ctx)
	case "BWTS":
		return transform.NewBWTSWithCtx(ctx)
	case "LZ":
		(*ctx)["lz"] = transform.LZ_TYPE
		return transform.NewLZCodecWithCtx(ctx)
	case "LZX":
		(*ctx)["lz"] = transform.LZX_TYPE
		return transform.NewLZCodecWithCtx(ctx)
	case "LZP":
		(*ctx)["lz"] = transform.LZP_TYPE
		return transform.NewLZCodecWithCtx(ctx)
	case "RLT":
		return transform.NewRLTWithCtx(ctx)
	case "ZRLT":
		return transform.NewZRLTWithCtx(ctx)
	case "MTFT":
		(*ctx)["sbrt"] = transform.SBRT_MODE_MTF
		return transform.NewSBRTWithCtx(ctx)
	case "RANK":
		(*ctx)["sbrt"] = transform.SBRT_MODE_RANK
		return transform.NewSBRTWithCtx(ctx)
	case "EXE":
		return transform.NewEXECodecWithCtx(ctx)
	case "TEXT":
		tc := 1
		if e, _ := (*ctx)["entropy"].(string); e == "NONE" || e == "ANS0" || e == "HUFFMAN" || e == "RANGE" {
			tc = 2
		}
		(*ctx)["textcodec"] = tc
		return transform.NewTextCodecWithCtx(ctx)
	case "ROLZ", "ROLZX":
		return transform.NewROLZCodecWithCtx(ctx)
	case "SRT":
		return transform.NewSRTWithCtx(ctx)
	case "MM":
		return transform.NewFSDCodecWithCtx(ctx)
	case "UTF":
		return transform.NewUTFCodecWithCtx(ctx)
	case "PACK":
		return transform.NewAliasCodecWithCtx(ctx)
	case "DNA":
		(*ctx)["packOnlyDNA"] = true
		return transform.NewAliasCodecWithCtx(ctx)
	}
	return nil, fmt.Errorf("unknown transform %s", name)
}

// plainNames are the transforms built by their context-free public constructors (with every legal parameter)
var plainNames = []string{"plain:BWT", "plain:BWTS", "plain:LZ", "plain:LZX", "plain:LZP", "plain:RLT", "plain:ZRLT", "plain:SBRT:1", "plain:SBRT:2",
	"plain:SBRT:3", "plain:EXE", "plain:TEXT", "plain:ROLZ:2", "plain:ROLZ:3", "plain:ROLZ:4", "plain:ROLZ:5", "plain:ROLZ:6", "plain:ROLZ:7", "plain:ROLZ:8",
	"plain:ROLZF:0", "plain:ROLZF:1", "plain:SRT", "plain:MM", "plain:UTF", "plain:PACK", "plain:NONE"}

func newPlain(name string) (kanzi.ByteTransform, error) {
	var k int
	switch {
	case name == "plain:NONE":
		return transform.NewNullTransform()
	case name == "plain:BWT":
		return transform.NewBWTBlockCodec()
	case name == "plain:BWTS":
		return transform.NewBWTS()
	case name == "plain:LZ":
		return transform.NewLZCodec()
	case name == "plain:LZX":
		return transform.NewLZXCodec()
	case name == "plain:LZP":
		return transform.NewLZPCodec()
	case name == "plain:RLT":
		return transform.NewRLT()
	case name == "plain:ZRLT":
		return transform.NewZRLT()
	case name == "plain:EXE":
		return transform.NewEXECodec()
	case name == "plain:TEXT":
		return transform.NewTextCodec()
	case name == "plain:SRT":
		return transform.NewSRT()
	case name == "plain:MM":
		return transform.NewFSDCodec()
	case name == "plain:UTF":
		return transform.NewUTFCodec()
	case name == "plain:PACK":
		return transform.NewAliasCodec()
	}
	if n, _ := fmt.Sscanf(name, "plain:SBRT:%d", &k); n == 1 {
		return transform.NewSBRT(k)
	}
	if n, _ := fmt.Sscanf(name, "plain:ROLZ:%d", &k); n == 1 {
		return transform.NewROLZCodec(uint(k))
	}
	if n, _ := fmt.Sscanf(name, "plain:ROLZF:%d", &k); n == 1 {
		return transform.NewROLZCodecWithFlag(k == 1)
	}
	return nil, fmt.Errorf("unknown transform %s", name)
}

func isChain(t string) bool {
	for _, c := range t {
		if c == '+' {
			return true
		}
	}
	return false
}

// runXform executes one case and returns its STAGE event
func runXform(c xformCase) tr.Ev {
	harvestDataTypes()
	ev := tr.Ev{"ev": "STAGE", "id": c.ID, "t": c.T, "shape": c.Shape, "size": c.Size, "hint": c.Hint, "entropy": c.Entropy,
		"fwd": "none", "fwdPanic": "", "outLen": 0, "maxLen": 0, "srcIntact": true, "inv": "none", "invPanic": "", "invLen": 0,
		"restored": false, "read": 0, "skip": -1, "chain": isChain(c.T)}
	src := gen.Make(c.Shape, c.Seed, c.Size)
	orig := append([]byte(nil), src...)
	mk := func() (kanzi.ByteTransform, map[string]any, error) {
		ctx := baseCtx(c.Entropy, c.Jobs, c.Size)
		if c.Shape == "wordlist" {
			ctx["blockSize"] = uint(8 << 20) // the block size the stream layer would declare (it sizes the dictionaries)
		}
		if c.Hint >= 0 {
			// only a data type that a real earlier stage derives from this very block may be in the context: transforms trust it
			// (UTF skips its validation when the type says UTF-8), so an arbitrary value would break their precondition
			if v, ok := classify(classifiers[c.Hint%len(classifiers)], orig, c); ok {
				ctx["dataType"] = v
			}
		}
		var t kanzi.ByteTransform
		var err error
		if isChain(c.T) {
			ctx["transform"] = c.T
			var ty uint64
			if ty, err = transform.GetType(c.T); err == nil {
				t, err = transform.New(&ctx, ty)
			}
		} else if strings.HasPrefix(c.T, "plain:") {
			t, err = newPlain(c.T)
		} else {
			t, err = newSingle(c.T, &ctx)
		}
		return t, ctx, err
	}
	t, _, err := mk()
	if err != nil {
		ev["fwd"] = "construct: " + err.Error()
		return ev
	}
	var warmEnc []byte
	if c.Warm != "" && strings.HasPrefix(c.T, "plain:") {
		ev["shape"] = c.Shape + " after " + c.Warm
		wsrc := gen.Make(c.Warm, c.Seed+77, c.Size)
		wdst := make([]byte, t.MaxEncodedLen(len(wsrc)))
		func() {
			defer func() { recover() }()
			if _, n, e := t.Forward(wsrc, wdst); e == nil && int(n) <= len(wdst) {
				warmEnc = wdst[:n]
			}
		}()
	}
	maxLen := t.MaxEncodedLen(c.Size)
	ev["maxLen"] = maxLen
	dst := make([]byte, maxLen)
	var read, outLen uint
	var ferr error
	func() {
		defer func() {
			if p := recover(); p != nil {
				ev["fwdPanic"] = fmt.Sprint(p)
			}
		}()
		read, outLen, ferr = t.Forward(src, dst)
	}()
	ev["srcIntact"] = string(src) == string(orig)
	if ev["fwdPanic"] != "" {
		ev["fwd"] = "panic"
		return ev
	}
	ev["outLen"] = int(outLen)
	ev["read"] = int(read)
	if seq, ok := t.(*transform.ByteTransformSequence); ok {
		ev["skip"] = int(seq.SkipFlags())
	}
	if ferr != nil {
		ev["fwd"] = "declined"
		return ev
	}
	if c.Size == 0 {
		ev["fwd"] = "empty"
		return ev
	}
	ev["fwd"] = "ok"
	if int(outLen) > maxLen {
		return ev
	}
	// inverse with a fresh instance, into a buffer of the size the decompressor provides
	t2, _, err := mk()
	if err != nil {
		ev["inv"] = "construct: " + err.Error()
		return ev
	}
	if seq, ok := t.(*transform.ByteTransformSequence); ok {
		t2.(*transform.ByteTransformSequence).SetSkipFlags(seq.SkipFlags())
	}
	bs := (c.Size + 15) &^ 15
	if bs < 1024 {
		bs = 1024
	}
	pad := bs >> 4
	if pad < 512 {
		pad = 512
	}
	out := make([]byte, bs+pad)
	if warmEnc != nil {
		func() {
			defer func() { recover() }()
			t2.Inverse(warmEnc, make([]byte, bs+pad))
		}()
	}
	in := append([]byte(nil), dst[:outLen]...)
	var invLen uint
	var ierr error
	func() {
		defer func() {
			if p := recover(); p != nil {
				ev["invPanic"] = fmt.Sprint(p)
			}
		}()
		_, invLen, ierr = t2.Inverse(in, out)
	}()
	if ev["invPanic"] != "" {
		ev["inv"] = "panic"
		return ev
	}
	if ierr != nil {
		ev["inv"] = "error: " + ierr.Error()
		return ev
	}
	ev["inv"] = "ok"
	ev["invLen"] = int(invLen)
	ev["restored"] = int(invLen) == len(orig) && string(out[:invLen]) == string(orig)
	return ev
}

var xformSizes = []int{1, 2, 15, 16, 17, 63, 64, 255, 256, 257, 1023, 1024, 1025, 4095, 4096, 16384, 65535, 65536, 65537, 200000, 1 << 20}

// stages that classify a block and leave its data type in the context for the stages behind them
var classifiers = []string{"TEXT", "UTF", "EXE", "MM", "ROLZ", "PACK"}

// classify runs the forward direction of a classifier stage on a copy of the block (fresh context) and returns the data type it
// leaves when it declines the block (so that the block goes on, unchanged, to the next stage together with that type)
func classify(name string, block []byte, c xformCase) (v any, ok bool) {
	defer func() {
		if recover() != nil {
			ok = false
		}
	}()
	ctx := baseCtx(c.Entropy, c.Jobs, c.Size)
	t, err := newSingle(name, &ctx)
	if err != nil {
		return nil, false
	}
	src := append([]byte(nil), block...)
	dst := make([]byte, t.MaxEncodedLen(len(src)))
	if _, _, ferr := t.Forward(src, dst); ferr == nil {
		// the classifier transformed the block: the next stage sees its output, not this block (the chain cases cover that)
		return nil, false
	}
	v, ok = ctx["dataType"]
	return v, ok
}

func cmdXform(args []string) int {
	fs := flag.NewFlagSet("xform", flag.ExitOnError)
	n := fs.Int("n", 500, "number of random cases (in addition to the grid)")
	seed := fs.Int64("seed", 1, "seed")
	out := fs.String("out", "trace.ndjson", "trace file")
	sum := fs.String("sum", "", "summary file")
	thorough := fs.Bool("thorough", false, "thorough")
	par := fs.Int("par", 8, "parallelism")
	one := fs.String("case", "", "run a single case given as JSON and print its event")
	fs.Parse(args)
	if *one != "" {
		var c xformCase
		if err := json.Unmarshal([]byte(*one), &c); err != nil {
			fmt.Fprintln(os.Stderr, err)
			return 2
		}
		b, _ := json.Marshal(runXform(c))
		fmt.Println(string(b))
		return 0
	}
	hints := []int{0, 1, 2, 3, 4, 5} // indexes into classifiers
	rnd := rand.New(rand.NewSource(*seed*7177 + 1))
	var cases []xformCase
	id := 0
	add := func(t, shape string, size, hint int, entropy string) {
		cases = append(cases, xformCase{ID: id, T: t, Shape: shape, Size: size, Seed: *seed*1009 + int64(id), Hint: hint, Entropy: entropy, Jobs: pick(rnd, []uint{1, 1, 2, 3, 4, 5, 6, 7, 8})})
		id++
	}
	// the grid: every transform x every shape x a rotating size, with and without hint
	sizes := xformSizes
	if *thorough {
		sizes = append(sizes, 4<<20-1, 4<<20+16, 6<<20)
	}
	for ti, t := range transformNames {
		for si, shape := range gen.Shapes {
			nsz := 3
			if *thorough {
				nsz = 8
			}
			for k := 0; k < nsz; k++ {
				size := sizes[(ti*7+si*3+k*5)%len(sizes)]
				if size > 1<<20 && t != "BWT" && t != "BWTS" {
					size = sizes[(ti+si+k)%12]
				}
				ent := "NONE"
				if t == "TEXT" {
					ent = pick(rnd, []string{"NONE", "HUFFMAN", "CM", "TPAQ", "TPAQX", "FPAQ"})
				}
				add(t, shape, size, -1, ent)
				if len(hints) > 0 && k == 0 {
					add(t, shape, size, hints[(ti+si)%len(hints)], ent)
				}
			}
		}
	}
	// the context-free public constructors with every legal parameter
	for ti, t := range plainNames {
		for si, shape := range gen.Shapes {
			if !*thorough && (ti+si)%3 != 0 {
				continue
			}
			add(t, shape, sizes[(ti*5+si*3)%12], -1, "NONE")
			if *thorough {
				add(t, shape, sizes[(ti*3+si*7+5)%len(sizes)]%(1<<20+17), -1, "NONE")
			}
		}
	}
	// second use of the same objects: another block first
	{
		warmPairs := [][2]string{{"text", "random"}, {"random", "text"}, {"html", "dnarep"}, {"runs", "text"}, {"text", "utf8"}, {"x86", "html"}, {"sparse", "runs"}, {"wav", "bmptile"}}
		for ti, t := range plainNames {
			for pi, pr := range warmPairs {
				if !*thorough && (ti+pi)%2 != 0 {
					continue
				}
				cases = append(cases, xformCase{ID: id, T: t, Shape: pr[1], Warm: pr[0], Size: []int{5000, 70000, 20000}[(ti+pi)%3], Seed: *seed*1009 + int64(id), Hint: -1, Entropy: "NONE", Jobs: 1})
				id++
			}
		}
	}
	// the multi-MiB regime of the BWT (several primary indexes, inverse split among helper goroutines): every job count 1..8
	for j := uint(1); j <= 8; j++ {
		if *thorough || j == 3 || j == 7 {
			cases = append(cases, xformCase{ID: id, T: "BWT", Shape: "text", Size: 4<<20 + 4096*int(j), Seed: *seed*1009 + int64(id), Hint: -1, Entropy: "NONE", Jobs: j})
			id++
		}
	}
	// ... and between 8 and 16 MiB (indexes at and above 2^23, the second regime boundary of the inverse)
	for bi, j := range []uint{1, 4} {
		if *thorough || bi == 0 {
			cases = append(cases, xformCase{ID: id, T: []string{"BWT", "BWTS"}[bi], Shape: "text", Size: 9<<20 + 4096*int(j), Seed: *seed*1009 + int64(id), Hint: -1, Entropy: "NONE", Jobs: j})
			id++
		}
	}
	// dictionaries of the text transform: several hundred thousand distinct words in one block, both variants of the transform
	// (the variant is selected by the entropy codec in the context; the size of the dictionary by the block size)
	for wi, sz := range []int{5600000, 4200000} {
		if *thorough || wi == 0 {
			for _, ent := range []string{"FPAQ", "NONE"} {
				cases = append(cases, xformCase{ID: id, T: "TEXT", Shape: "wordlist", Size: sz, Seed: *seed*1009 + int64(id), Hint: -1, Entropy: ent, Jobs: 1})
				id++
			}
		}
	}
	// data-type hints left by earlier stages: every transform behind each stage that classifies the block, on the data classes
	// these stages tell apart (including almost-valid UTF-8)
	hintShapes := []string{"text", "utf8", "utf8cjk", "utf8dmg", "dna", "x86", "wav", "mixed", "html", "numeric", "base64", "exe"}
	for ai, a := range []string{"TEXT", "UTF", "EXE", "MM", "PACK", "DNA"} {
		for bi, b := range transformNames {
			if b == "NONE" {
				continue
			}
			nsh := 4
			if *thorough {
				nsh = len(hintShapes)
			}
			for k := 0; k < nsh; k++ {
				shape := hintShapes[(ai*5+bi*3+k)%len(hintShapes)]
				if k == 0 && (a == "TEXT" || b == "UTF") {
					shape = []string{"utf8dmg", "utf8cjk"}[(ai+bi)%2]
				}
				add(a+"+"+b, shape, []int{30000, 65536, 9000, 70001}[(ai+bi+k)%4], -1, "NONE")
			}
		}
	}
	// almost-valid UTF-8: consecutive seeds enumerate (kind of damage, lead byte) for the stages that validate or trust UTF-8
	ndmg := 60
	if *thorough {
		ndmg = 330
	}
	for k := 0; k < ndmg; k++ {
		add([]string{"TEXT+UTF", "UTF", "TEXT+UTF+LZ"}[k/55%3], "utf8dmg", []int{30000, 65536}[k%2], -1, "NONE")
		cases[len(cases)-1].Seed = *seed*1009 + int64(k) // kind = seed mod 5, lead = (seed / 5) mod #leads
	}
	// boundary sweeps of the length / distance encodings: a literal run, a match, a run of equal bytes of exactly v bytes and two
	// copies exactly v bytes apart, for every v around the places where such encodings change their width (one byte, 2^8, 2^16 plus
	// the few hundred values behind them)
	var sweep []int
	for v := 0; v <= 320; v++ {
		sweep = append(sweep, v)
	}
	lo, hi := 65536+200, 65536+300
	if *thorough {
		for v := 321; v <= 700; v++ {
			sweep = append(sweep, v)
		}
		lo, hi = 65536-60, 65536+420
	}
	for v := lo; v <= hi; v++ {
		sweep = append(sweep, v)
	}
	lzFam := []string{"LZ", "LZX"}
	if *thorough {
		lzFam = []string{"LZ", "LZX", "LZP", "ROLZ", "ROLZX"}
	}
	for vi, v := range sweep {
		// blocks above 256 KiB make the LZ codecs use their 24-bit window: needed for a match behind a long literal run
		fill := 30000
		if v > 40000 {
			fill = 300000
		}
		for ti, t := range lzFam {
			add(t, fmt.Sprintf("litrun:%d", v), v+8192+fill+16*((vi+ti)%5), -1, "NONE")
			if v <= 65536+290 {
				add(t, fmt.Sprintf("match:%d", v), 2*v+fill, -1, "NONE")
			}
		}
		if !*thorough {
			// the other members of the family on every third value
			if vi%3 == 0 {
				add([]string{"LZP", "ROLZ", "ROLZX"}[vi/3%3], fmt.Sprintf("litrun:%d", v), v+8192+fill, -1, "NONE")
			}
		}
		for ti, t := range []string{"RLT", "ZRLT"} {
			add(t, []string{"runlen", "zrun"}[ti]+fmt.Sprintf(":%d", v), 2*v+20000, -1, "NONE")
		}
		if vi%2 == 0 || *thorough {
			add("LZ", fmt.Sprintf("zrun:%d", v), 2*v+20000, -1, "NONE")
			add("LZX", fmt.Sprintf("runlen:%d", v), 2*v+20000, -1, "NONE")
		}
	}
	for k := uint(6); k <= 24; k++ {
		if k > 20 && !*thorough {
			break
		}
		for d := -2; d <= 2; d++ {
			v := 1<<k + d
			for _, t := range lzFam {
				add(t, fmt.Sprintf("dist:%d", v), v+100+20000, -1, "NONE")
			}
			add([]string{"LZP", "ROLZ", "ROLZX"}[int(k)%3], fmt.Sprintf("dist:%d", v), v+100+20000, -1, "NONE")
		}
	}
	// the same with a look-ahead configuration (a short match at P, a longer one at P+2 exactly v bytes back)
	for k := uint(12); k <= 20; k++ {
		if k > 17 && !*thorough {
			break
		}
		for d := -3; d <= 3; d++ {
			v := 1<<k + d
			for _, t := range []string{"LZ", "LZX"} {
				add(t, fmt.Sprintf("look:%d", v), v+200+30000, -1, "NONE")
			}
			if *thorough || d == -1 {
				add([]string{"LZP", "ROLZ", "ROLZX"}[int(k)%3], fmt.Sprintf("look:%d", v), v+200+30000, -1, "NONE")
			}
		}
	}
	// blocks that start inside a multi-byte character (0..3 continuation bytes first) or with more stray continuation bytes
	for v := 0; v <= 6; v++ {
		for ti, t := range []string{"UTF", "TEXT+UTF", "TEXT", "UTF+LZ"} {
			add(t, fmt.Sprintf("contlead:%d", v), []int{10000, 65536, 4096}[(v+ti)%3], -1, []string{"NONE", "FPAQ"}[ti%2])
		}
	}
	// capacities: exactly v distinct code points around the size of the symbol table of UTF, fixed-width records (dense short
	// matches) for the ROLZ family, a disk image of several MiB (every byte value frequent, one dominant) for SRT
	for _, v := range []int{32766, 32767, 32768, 32769, 255, 256, 2047, 2048, 2049} {
		add("UTF", fmt.Sprintf("codepoints:%d", v), 600000, -1, "NONE")
		if v > 32000 {
			add("TEXT+UTF", fmt.Sprintf("codepoints:%d", v), 600000, -1, "NONE")
		}
	}
	for w := 8; w <= 16; w++ {
		for ti, t := range []string{"ROLZ", "ROLZX", "LZP", "LZ"} {
			if ti < 2 || *thorough || w%3 == 0 {
				add(t, fmt.Sprintf("records:%d", w), []int{65536, 300000, 20000}[(w+ti)%3], -1, "NONE")
			}
		}
	}
	for ti, t := range []string{"SRT", "SRT+ZRLT", "BWTS"} {
		if ti < 2 || *thorough {
			cases = append(cases, xformCase{ID: id, T: t, Shape: "diskimg", Size: 7<<20 + 4096*ti, Seed: *seed*1009 + int64(id), Hint: -1, Entropy: "NONE", Jobs: 1})
			id++
		}
	}
	// executable images whose code section starts at every file offset modulo 4
	for _, off := range []int{0x100, 0x101, 0x102, 0x103, 0x1000, 0x1001} {
		for ti, t := range []string{"EXE", "EXE+LZ"} {
			add(t, fmt.Sprintf("elfarm:%d", off), []int{20000, 70000}[ti], -1, "NONE")
		}
	}
	// ... or end with a damaged character v bytes before the end
	for v := 1; v <= 9; v++ {
		for ti, t := range []string{"UTF", "TEXT+UTF", "UTF+LZ"} {
			// (a dozen consecutive sizes: where the generator cuts its last regular character varies with the size)
			for d := 0; d < 12; d++ {
				if ti > 0 && d%4 != 0 {
					continue
				}
				add(t, fmt.Sprintf("taildmg:%d", v), []int{8020, 65530, 4090}[(v+ti)%3]+d, -1, []string{"NONE", "FPAQ"}[ti%2])
			}
		}
	}
	// random single transforms and chains (sequence level)
	for i := 0; i < *n; i++ {
		t := pick(rnd, transformNames)
		if i%3 == 0 {
			t = randomChain(rnd)
		}
		size := pick(rnd, sizes[:19])
		if rnd.Intn(3) == 0 {
			size = 1 + rnd.Intn(70000)
		}
		h := -1
		if rnd.Intn(3) == 0 && len(hints) > 0 {
			h = pick(rnd, hints)
		}
		add(t, pick(rnd, gen.Shapes), size, h, pick(rnd, entropyNames))
	}
	evs := make([]tr.Ev, len(cases))
	var wg sync.WaitGroup
	sem := make(chan struct{}, *par)
	for i := range cases {
		wg.Add(1)
		sem <- struct{}{}
		go func(i int) {
			defer wg.Done()
			defer func() { <-sem }()
			if !guardBytes(cases[i].Size, func() { evs[i] = runXform(cases[i]) }) {
				evs[i] = tr.Ev{"ev": "STAGE", "id": cases[i].ID, "t": cases[i].T, "shape": cases[i].Shape, "size": cases[i].Size, "hint": cases[i].Hint,
					"entropy": cases[i].Entropy, "fwd": "hang", "fwdPanic": "", "outLen": 0, "maxLen": 0, "srcIntact": true, "inv": "none", "invPanic": "",
					"invLen": 0, "restored": false, "read": 0, "skip": -1, "chain": isChain(cases[i].T)}
			}
			b, _ := json.Marshal(cases[i])
			evs[i]["desc"] = string(b)
		}(i)
	}
	wg.Wait()
	// a case that did not return while many ran in parallel is repeated alone with a three times longer bound; only that counts
	rerunHungCases(evs, "fwd", func(i int) tr.Ev { return runXform(cases[i]) })
	w, err := tr.Open(*out)
	if err != nil {
		return 2
	}
	w.EmitAll(evs)
	w.Close()
	s := recSummary{ByMode: map[string]int{}}
	distinct := map[string]bool{}
	for i, e := range evs {
		s.Runs++
		s.ByMode[fmt.Sprint(e["fwd"])]++
		if cases[i].Size > 16 {
			distinct[fmt.Sprintf("%s|%s|%d|%d|%s", cases[i].T, cases[i].Shape, cases[i].Size, cases[i].Hint, cases[i].Entropy)] = true
		}
		if len(s.Samples) < 4 && e["fwd"] == "ok" {
			s.Samples = append(s.Samples, cases[i])
		}
	}
	s.Distinct = len(distinct)
	s.Events = len(evs)
	s.Notes = append(s.Notes, fmt.Sprintf("data type hints harvested: %v", hints))
	b, _ := json.MarshalIndent(s, "", " ")
	if *sum != "" {
		os.WriteFile(*sum, b, 0644)
	}
	fmt.Println(string(b))
	return 0
}

func init() {
	commands["xform"] = cmdXform
}
