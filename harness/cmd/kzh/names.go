package main

// Driver for C15: name <-> type conversions and end-to-end streams for every spelling.

import (
	"bufio"
	"encoding/json"
	"fmt"
	"os"
	"strings"
	"sync"

	"github.com/flanglet/kanzi-go/v2/entropy"
	"github.com/flanglet/kanzi-go/v2/transform"
	"kzverif/gen"
	"kzverif/kz"
	"kzverif/kzfmt"
	"kzverif/tr"
)

type nameCase struct {
	Kind  string   `json:"kind"`
	Names []string `json:"names"`
	Masks []int    `json:"masks"`
	EName string   `json:"ename"`
	EMask int      `json:"emask"`
	Shape string   `json:"shape"`
	Size  int      `json:"size"`
	Key   string   `json:"key"`
	Canon bool     `json:"canon"`
	Block uint     `json:"block"`
	Hless bool     `json:"headerless"`
}

func applyMask(name string, mask int) string {
	b := []byte(strings.ToUpper(name))
	for i := range b {
		if mask&(1<<uint(i)) != 0 {
			b[i] = byte(strings.ToLower(string(b[i]))[0])
		}
	}
	return string(b)
}

func spellChain(names []string, masks []int) string {
	var parts []string
	for i, n := range names {
		m := 0
		if i < len(masks) {
			m = masks[i]
		}
		parts = append(parts, applyMask(n, m))
	}
	return strings.Join(parts, "+")
}

func unpack48(t uint64) []int {
	out := make([]int, 8)
	for i := 0; i < 8; i++ {
		out[i] = int((t >> uint(42-6*i)) & 0x3F)
	}
	return out
}

// type codes of bitstream format 6 (KzNames.tla: TCode)
var codeName = map[int]string{1: "BWT", 2: "BWTS", 3: "LZ", 5: "RLT", 6: "ZRLT", 7: "MTFT", 8: "RANK", 9: "EXE", 10: "TEXT", 11: "ROLZ", 12: "ROLZX",
	13: "SRT", 14: "LZP", 15: "MM", 16: "LZX", 17: "UTF", 18: "PACK", 19: "DNA"}

// stagewise undoes a stream written with entropy NONE stage by stage, using for every stage a codec built from the numeric type found
// in the header ALONE (fresh context, nothing inherited from the other stages), honouring the skip flags of each block: it succeeds
// iff every type in the header names the codec variant that really encoded that stage. Returns "ok", "n/a" or a description.
func stagewise(stream, data []byte) (res string) {
	defer func() {
		if p := recover(); p != nil {
			res = fmt.Sprint("stage panics: ", p)
		}
	}()
	st, err := kzfmt.Parse(stream, false, 0)
	if err != nil || st.H.Entropy != 0 {
		return "n/a"
	}
	var stages []string
	for _, c := range unpack48(st.H.Transform) {
		if c != 0 {
			n, ok := codeName[c]
			if !ok {
				return "n/a"
			}
			stages = append(stages, n)
		}
	}
	var out []byte
	for _, blk := range st.Blocks {
		cur := make([]byte, blk.PreLen)
		for i := range cur {
			cur[i] = byte(kzfmt.GetBits(stream, blk.OffEntropy+8*i, 8))
		}
		if blk.Mode&0x80 == 0 {
			for i := len(stages) - 1; i >= 0; i-- {
				if blk.SkipFlags&(1<<(7-uint(i))) != 0 {
					continue
				}
				inv := func(name string) ([]byte, error) {
					ctx := baseCtx("NONE", 1, st.H.BlockSize)
					ctx["size"] = uint(len(cur))
					t, e := newSingle(name, &ctx)
					if e != nil {
						return nil, e
					}
					dst := make([]byte, st.H.BlockSize+1024)
					_, n, e := t.Inverse(append([]byte(nil), cur...), dst)
					if e != nil {
						return nil, e
					}
					return dst[:n], nil
				}
				nxt, e := inv(stages[i])
				if e != nil || len(nxt) == 0 {
					// which variant did encode it? (diagnosis only)
					for _, alt := range []string{"ROLZX", "ROLZ", "LZ", "LZX", "LZP", "MTFT", "RANK", "PACK", "DNA", "BWT", "BWTS"} {
						if alt != stages[i] {
							if a, e2 := inv(alt); e2 == nil && len(a) > 0 {
								return fmt.Sprintf("block %d stage %d: header says %s, the data were encoded by %s", blk.ID, i, stages[i], alt)
							}
						}
					}
					return fmt.Sprintf("block %d stage %d: header says %s, its inverse fails (%v)", blk.ID, i, stages[i], e)
				}
				cur = nxt
			}
		}
		out = append(out, cur...)
	}
	if string(out) != string(data) {
		return "header types do not reproduce the data"
	}
	return "ok"
}

func runNameCase(c nameCase) tr.Ev {
	switch c.Kind {
	case "t":
		sp := spellChain(c.Names, c.Masks)
		t, err := transform.GetType(sp)
		ev := tr.Ev{"ev": "TNAME", "names": c.Names, "spelled": sp, "err": err != nil, "codes": unpack48(t), "back": []string{}}
		if err == nil {
			if back, e2 := transform.GetName(t); e2 == nil {
				ev["back"] = strings.Split(back, "+")
			} else {
				ev["err"] = true
			}
		}
		return ev
	case "e":
		sp := applyMask(c.EName, c.EMask)
		t, err := entropy.GetType(sp)
		ev := tr.Ev{"ev": "ENAME", "name": c.EName, "spelled": sp, "err": err != nil, "code": int(t), "back": ""}
		if err == nil {
			if back, e2 := entropy.GetName(t); e2 == nil {
				ev["back"] = back
			} else {
				ev["err"] = true
			}
		}
		return ev
	default:
		sp := spellChain(c.Names, c.Masks)
		esp := applyMask(c.EName, c.EMask)
		data := gen.Make(c.Shape, int64(len(c.Key))*31+int64(c.Size), c.Size)
		B := c.Block
		if B == 0 {
			B = 65536
		}
		w := kz.Cfg{Transform: sp, Entropy: esp, Block: B, Jobs: 1, Ck: 32, Hint: -1, Headerless: c.Hless}
		ev := tr.Ev{"ev": "STREAM", "key": c.Key, "canon": c.Canon, "names": c.Names, "ename": c.EName, "spelled": sp + "&" + esp,
			"dig": "", "hdrT": []int{}, "hdrE": -1, "rt": "fail", "stagewise": "n/a"}
		stream, err := kz.Compress(data, w, nil, nil)
		if err != nil {
			ev["rt"] = "compress: " + errText(err)
			return ev
		}
		ev["dig"] = tr.Dig(stream)
		if !c.Hless {
			if h, e := kzfmt.ParseHeader(stream); e == nil {
				ev["hdrT"] = unpack48(h.Transform)
				ev["hdrE"] = int(h.Entropy)
			}
		} else {
			// no header: the types are those the spec expects by construction
			t, _ := transform.GetType(strings.ToUpper(sp))
			e, _ := entropy.GetType(strings.ToUpper(esp))
			ev["hdrT"] = unpack48(t)
			ev["hdrE"] = int(e)
		}
		// decode with the canonical (upper case) names in headerless mode, from the header otherwise
		rc := kz.RCfg{Jobs: 1}
		if c.Hless {
			wc := w
			wc.Transform = strings.ToUpper(sp)
			wc.Entropy = strings.ToUpper(esp)
			rc.W = &wc
		}
		out, derr := kz.Decompress(stream, rc, nil, nil, nil, len(data)+1<<20)
		if derr == nil && c.Hless && string(out) == string(data) {
			// ... and with the names spelled as the writer was given them: the reader accepts any letter case too
			ws := w
			out, derr = kz.Decompress(stream, kz.RCfg{Jobs: 1, W: &ws}, nil, nil, nil, len(data)+1<<20)
			if derr != nil {
				derr = fmt.Errorf("reader given the spelling %s&%s: %v", sp, esp, derr)
			}
		}
		if derr != nil {
			ev["rt"] = "decode: " + errText(derr)
		} else if string(out) != string(data) {
			ev["rt"] = "decode: different bytes"
		} else {
			ev["rt"] = "ok"
			if !c.Hless && strings.ToUpper(esp) == "NONE" {
				ev["stagewise"] = stagewise(stream, data)
			}
		}
		return ev
	}
}

// kzh names <cases.ndjson> <trace.ndjson>
func cmdNames(args []string) int {
	in, err := os.Open(args[0])
	if err != nil {
		fmt.Fprintln(os.Stderr, err)
		return 2
	}
	defer in.Close()
	w, err := tr.Open(args[1])
	if err != nil {
		fmt.Fprintln(os.Stderr, err)
		return 2
	}
	sc := bufio.NewScanner(in)
	sc.Buffer(make([]byte, 1<<20), 1<<26)
	var cases []nameCase
	for sc.Scan() {
		var c nameCase
		if err := json.Unmarshal(sc.Bytes(), &c); err != nil {
			fmt.Fprintln(os.Stderr, "bad case:", err)
			return 2
		}
		cases = append(cases, c)
	}
	// streams are expensive: run them in parallel but emit in input order (canonical spelling first)
	evs := make([]tr.Ev, len(cases))
	var wg sync.WaitGroup
	sem := make(chan struct{}, 16)
	for i := range cases {
		wg.Add(1)
		sem <- struct{}{}
		go func(i int) {
			defer wg.Done()
			defer func() { <-sem }()
			defer func() {
				if p := recover(); p != nil {
					evs[i] = tr.Ev{"ev": "STREAM", "key": cases[i].Key, "canon": cases[i].Canon, "names": cases[i].Names, "ename": cases[i].EName,
						"dig": "", "hdrT": []int{}, "hdrE": -1, "rt": fmt.Sprint("panic: ", p), "stagewise": "n/a"}
				}
			}()
			evs[i] = runNameCase(cases[i])
		}(i)
	}
	wg.Wait()
	w.EmitAll(evs)
	w.Close()
	fmt.Println(len(cases))
	return 0
}

func init() {
	commands["names"] = cmdNames
}
