package main

// Replay of KzWriter behaviours (TLC state graph paths) on the real Writer through blocking gates,
// with sink faults and codec faults placed where the model places them.

import (
	"bufio"
	"bytes"
	"encoding/json"
	"errors"
	"fmt"
	"os"
	"sync"
	"sync/atomic"
	"time"

	"github.com/flanglet/kanzi-go/v2/bitstream"
	kio "github.com/flanglet/kanzi-go/v2/io"
	"kzverif/fio"
	"kzverif/gen"
	"kzverif/hk"
	"kzverif/kz"
	"kzverif/kzfmt"
)

type wExp struct {
	Counter    int               `json:"counter"`
	Wpc        string            `json:"wpc"`
	Ret        map[string]any    `json:"ret"`
	Et         map[string]string `json:"et"`
	Ids        map[string]int    `json:"ids"`
	BatchFirst int               `json:"batchFirst"`
	CloseOK    bool              `json:"closeOK"`
	Accepted   int               `json:"accepted"`
}

type wCfg struct {
	Jobs            int    `json:"Jobs"`
	B               int    `json:"B"`
	Hint            int    `json:"Hint"`
	L               int    `json:"L"`
	FlushMode       string `json:"FlushMode"`
	FailBlocks      []int  `json:"FailBlocks"`
	FailLocal       []int  `json:"FailLocal"`
	CloseFlushFails int    `json:"CloseFlushFails"`
	SinkCloseFails  int    `json:"SinkCloseFails"`
}

type wScenario struct {
	Sid   string  `json:"sid"`
	Cfg   wCfg    `json:"cfg"`
	Init  wExp    `json:"init"`
	Steps []rStep `json:"steps"`
	Exp   []wExp  `json:"exp"`
}

// faultSink is a sink whose failures are decided by the state of the replay
type faultSink struct {
	mu         sync.Mutex
	data       []byte
	holder     *int32
	inClose    *int32
	failBlocks map[int]bool
	closeFails int
	sinkFails  int
	failed     int // number of failed calls
	emitFailed int // number of calls failed while a task was emitting
	writes     int
	closed     bool
}

func (s *faultSink) Write(p []byte) (int, error) {
	s.mu.Lock()
	defer s.mu.Unlock()
	s.writes++
	h := int(atomic.LoadInt32(s.holder))
	if h != 0 && s.failBlocks[h] {
		s.emitFailed++
		s.failed++
		return 0, fio.ErrInjected
	}
	if h == 0 && atomic.LoadInt32(s.inClose) == 1 && s.closeFails > 0 {
		s.closeFails--
		s.failed++
		return 0, fio.ErrInjected
	}
	s.data = append(s.data, p...)
	return len(p), nil
}

func (s *faultSink) Close() error {
	s.mu.Lock()
	defer s.mu.Unlock()
	if s.sinkFails > 0 {
		s.sinkFails--
		s.failed++
		return fio.ErrInjected
	}
	s.closed = true
	return nil
}

var encodeGateOfPc = map[string]int{"local": kio.VH_E_START, "wait": kio.VH_E_WAIT, "emit": kio.VH_E_SEEN,
	"fin": kio.VH_E_FIN0, "done": kio.VH_E_FIN1}

// rawBlocks extracts the raw content of the blocks of a NONE/NONE stream with the independent parser.
func rawBlocks(stream []byte) ([][]byte, bool, error) {
	st, err := kzfmt.Parse(stream, false, 0)
	if err != nil {
		return nil, false, err
	}
	var out [][]byte
	for _, b := range st.Blocks {
		n := b.PreLen
		if b.OffEntropy+8*n > b.Payload+b.LenBits {
			return nil, false, fmt.Errorf("block %d: payload shorter than its declared length", b.ID)
		}
		d := make([]byte, n)
		for i := 0; i < n; i++ {
			d[i] = byte(kzfmt.GetBits(stream, b.OffEntropy+8*i, 8))
		}
		out = append(out, d)
	}
	return out, st.EndBits > 0, nil
}

func replayWriterOne(sc *wScenario, realB int, seed int64, stepTimeout time.Duration) (res rResult) {
	res = rResult{Sid: sc.Sid, Status: "match", Steps: len(sc.Steps)}
	c := sc.Cfg
	S := realB / c.B
	orig := gen.Make("text", seed, c.L*S)
	rec := hk.NewRec(seed)
	rec.Digest = map[int]bool{}
	sched := hk.NewSched([]int{kio.VH_E_START, kio.VH_E_WAIT, kio.VH_E_SEEN, kio.VH_E_FIN0}, []int{kio.VH_E_FIN1})
	sched.NoGate = func(pt int, a int64) bool { return pt == kio.VH_E_SEEN && a == -1 }
	rec.Sched = sched
	var holder, inClose int32
	failLocal := map[int]bool{}
	for _, b := range c.FailLocal {
		failLocal[b] = true
	}
	rec.Inject = func(pt int, id int32, a, b int64, buf []byte) {
		switch pt {
		case kio.VH_E_SEEN:
			if a != -1 {
				atomic.StoreInt32(&holder, id)
			}
		case kio.VH_E_EMIT1, kio.VH_E_FIN0:
			atomic.CompareAndSwapInt32(&holder, id, 0)
		case kio.VH_E_LOCAL:
			if failLocal[int(id)] {
				panic(errors.New("injected codec failure"))
			}
		}
	}
	sink := &faultSink{holder: &holder, inClose: &inClose, failBlocks: map[int]bool{}, closeFails: c.CloseFlushFails, sinkFails: c.SinkCloseFails}
	for _, b := range c.FailBlocks {
		sink.failBlocks[b] = true
	}
	hint := int64(-1)
	if c.Hint > 0 {
		hint = int64(c.Hint) * int64(realB)
	}
	wc := kz.Cfg{Transform: "NONE", Entropy: "NONE", Block: uint(realB), Jobs: uint(c.Jobs), Ck: 0, Hint: hint}
	ctx := wc.Ctx()
	ctx["verifHook"] = rec.Func()
	var w *kio.Writer
	var err error
	if c.FlushMode == "emit" {
		obs, e := bitstream.NewDefaultOutputBitStream(sink, 1024)
		if e != nil {
			res.Status, res.Detail = "inconclusive", e.Error()
			return
		}
		w, err = kio.NewWriterWithCtx2(obs, ctx)
	} else {
		w, err = kio.NewWriterWithCtx(sink, ctx)
	}
	if err != nil {
		res.Status, res.Detail = "inconclusive", "writer: "+err.Error()
		return
	}

	type wret struct {
		op    string
		n     int
		err   error
		panic any
	}
	var pending chan wret
	cur := map[int32]int{}
	written := 0  // real bytes handed to Write so far
	accepted := 0 // real bytes for which Write returned success
	closeNil := false
	faultSeen := func() bool { sink.mu.Lock(); defer sink.mu.Unlock(); return sink.emitFailed > 0 }
	localFaultHit := false

	var checkReturn2 func(i int, r wret) bool
	freeRun := false // after a divergence from the model: gates open, only the API calls of the scenario are issued
	var driftDetail [3]string
	driftStep := 0
	fail := func(i int, status, pred, detail string) {
		if status == "drift" && !freeRun {
			// cannot follow the model any further: open the gates, finish the call history free-running and
			// judge the observable outcome with the property predicates alone
			freeRun = true
			driftDetail = [3]string{status, pred, detail}
			driftStep = i
			sched.Free()
			return
		}
		res.Status, res.Pred, res.Detail, res.Step = status, pred, detail, i
	}
	waitPending := func(i int) bool {
		if pending == nil {
			return true
		}
		select {
		case r := <-pending:
			pending = nil
			return checkReturn2(i, r)
		case <-time.After(6 * time.Second):
			res.Status, res.Pred, res.Detail, res.Step = "violation", "termination", "call did not return within 6 s with all gates open", i
			pending = nil
			return false
		}
	}

	defer func() {
		sched.Free()
		if pending != nil {
			select {
			case <-pending:
			case <-time.After(6 * time.Second):
				res.Status, res.Pred, res.Detail = "violation", "termination", "call did not return within 6 s after all gates were opened"
			}
		}
		if res.Status != "match" {
			for _, e := range rec.Events() {
				res.Events = append(res.Events, fmt.Sprintf("%s(%d,a=%d,b=%d)", hk.Names[e.Pt], e.ID, e.A, e.B))
			}
			if len(res.Events) > 80 {
				res.Events = res.Events[len(res.Events)-80:]
			}
		}
	}()

	// property predicates on the real values
	checkSink := func(i int, final bool) bool {
		sink.mu.Lock()
		data := append([]byte(nil), sink.data...)
		sink.mu.Unlock()
		if !final {
			return true
		}
		blocks, hasEnd, perr := rawBlocks(data)
		if perr != nil || !hasEnd {
			fail(i, "violation", "W_CloseOK", fmt.Sprintf("Close returned nil but the sink content is not a complete stream (%v, end marker %v)", perr, hasEnd))
			return false
		}
		var all []byte
		for k, b := range blocks {
			lo := k * realB
			hi := min(lo+realB, accepted)
			if lo > accepted || !bytes.Equal(b, orig[lo:hi]) {
				fail(i, "violation", "W_Partition", fmt.Sprintf("block frame %d does not hold bytes [%d,%d) of the accepted data", k+1, lo, hi))
				return false
			}
			all = append(all, b...)
		}
		if len(all) != accepted {
			fail(i, "violation", "W_CloseOK", fmt.Sprintf("Close returned nil, sink holds %d of %d accepted bytes", len(all), accepted))
			return false
		}
		return true
	}

	checkReturn := func(i int, r wret, exp wExp) bool {
		if r.panic != nil {
			fail(i, "violation", "W_NoPanic", fmt.Sprintf("%s panicked: %v", r.op, r.panic))
			return false
		}
		cls := kz.Class(r.err)
		if r.op == "write" {
			if closeNil && (r.err == nil || r.n > 0) {
				// C17: Write after a successful Close fails with an error, whatever its length
				fail(i, "violation", "W_ClosedRefuses", fmt.Sprintf("Write after a successful Close returned (%d, %v)", r.n, r.err))
				return false
			}
			if r.err == nil {
				accepted = written
			}
		} else {
			if r.err == nil {
				if closeNil == false {
					closeNil = true
				}
				if faultSeen() || localFaultHit {
					// a fault during Write was never reported by a non-nil Close
					fail(i, "violation", "W_FailureReported", "Close returned nil although a sink or codec fault occurred")
					return false
				}
				if !checkSink(i, true) {
					return false
				}
				if c.FlushMode == "close" && !sink.closed {
					fail(i, "violation", "W_CloseOK", "Close returned nil but the sink was not closed")
					return false
				}
			}
		}
		if freeRun {
			return true
		}
		mop, _ := exp.Ret["op"].(string)
		mn, _ := exp.Ret["n"].(float64)
		me, _ := exp.Ret["err"].(string)
		if mop != r.op || me != cls || (r.op == "write" && cls == "none" && int(mn)*S != r.n) {
			fail(i, "drift", "ret", fmt.Sprintf("model returns %s(%d,%s), code returns %s(%d,%s: %v)", mop, int(mn)*S, me, r.op, r.n, cls, r.err))
			return false
		}
		return true
	}

	checkReturn2 = func(i int, r wret) bool { return checkReturn(i, r, wExp{}) }
	evSeen := 0
	cancelPublished := false
	// exact while the gates impose a total order (C07): once a task has published a failure, no task acquires
	// the shared stream any more
	scanEvents := func(i int) bool {
		evs := rec.Events()
		for ; evSeen < len(evs); evSeen++ {
			e := evs[evSeen]
			if e.Pt == kio.VH_E_FIN1 && e.B == -1 {
				cancelPublished = true
			}
			if e.Pt == kio.VH_E_SEEN && e.A != -1 && cancelPublished && !freeRun {
				fail(i, "violation", "C07_acquire_after_cancel", fmt.Sprintf("task %d acquired the shared stream after a failure was published", e.ID))
				return false
			}
		}
		return true
	}
	call := func(op string, f func() (int, error)) {
		ch := make(chan wret, 1)
		go func() {
			var r wret
			r.op = op
			defer func() {
				if p := recover(); p != nil {
					r.panic = p
				}
				ch <- r
			}()
			r.n, r.err = f()
		}()
		pending = ch
	}

	// direct calls are guarded: a call that never returns with all gates open is a termination violation
	const callTimeout = 20 * time.Second
	gCall := func(i int, op string, f func() (int, error)) (wret, bool) {
		ch := make(chan wret, 1)
		go func() {
			r := wret{op: op}
			defer func() {
				if p := recover(); p != nil {
					r.panic = p
				}
				ch <- r
			}()
			r.n, r.err = f()
		}()
		select {
		case r := <-ch:
			return r, true
		case <-time.After(callTimeout):
			res.Status, res.Pred, res.Detail, res.Step = "violation", "termination", fmt.Sprintf("%s did not return within %v with all gates open", op, callTimeout), i
			return wret{}, false
		}
	}

	prev := sc.Init
	for i, st := range sc.Steps {
		exp := sc.Exp[i]
		if freeRun {
			switch st.A {
			case "WriteBegin":
				if !waitPending(i) {
					return
				}
				n := st.X[0] * S
				if written+n > len(orig) {
					continue
				}
				buf := orig[written : written+n]
				written += n
				r, ok := gCall(i, "write", func() (int, error) { return w.Write(buf) })
				if !ok {
					return
				}
				if r.err != nil {
					written -= n - max(r.n, 0)
				}
				if !checkReturn2(i, r) {
					return
				}
			case "CloseBegin":
				if !waitPending(i) {
					return
				}
				atomic.StoreInt32(&inClose, 1)
				r, ok := gCall(i, "close", func() (int, error) { return 0, w.Close() })
				if !ok {
					return
				}
				atomic.StoreInt32(&inClose, 0)
				if !checkReturn2(i, r) {
					return
				}
			}
			continue
		}
		switch st.A {
		case "WriteBegin":
			if pending != nil {
				fail(i, "inconclusive", "script", "WriteBegin while a call is pending")
				return
			}
			n := st.X[0] * S
			buf := orig[written : written+n]
			// bytes are consumed by the model only when the call is admitted
			if exp.Wpc != "idle" {
				written += n
			}
			call("write", func() (int, error) { return w.Write(buf) })
		case "CloseBegin":
			if pending != nil {
				fail(i, "inconclusive", "script", "CloseBegin while a call is pending")
				return
			}
			atomic.StoreInt32(&inClose, 1)
			call("close", func() (int, error) { e := w.Close(); atomic.StoreInt32(&inClose, 0); return 0, e })
		case "WriteCopy", "PBStart", "Join", "PBReturn", "ObsClose", "SinkClose", "Terminated", "Stuck":
		case "Local", "EWait", "Emit", "EFin":
			t := fmt.Sprint(st.X[0])
			id := int32(prev.Ids[t])
			res.TaskOps++
			if cur[id] == 0 {
				pt, _, done := sched.WaitAt(id, stepTimeout)
				if pt == 0 || done {
					fail(i, "drift", "gate", fmt.Sprintf("task %d did not reach its first gate", id))
					continue
				}
				cur[id] = pt
			}
			want := encodeGateOfPc[prev.Et[t]]
			if cur[id] != want {
				fail(i, "drift", "gate", fmt.Sprintf("task %d waits at %s, model pc %s", id, hk.Names[cur[id]], prev.Et[t]))
				continue
			}
			if st.A == "Local" && failLocal[int(id)] {
				localFaultHit = true
			}
			sched.Release(id)
			pt, _, _ := sched.WaitAt(id, stepTimeout)
			if pt == 0 {
				fail(i, "violation", "termination", fmt.Sprintf("task %d released from %s (%s) did not reach another protocol point within %v", id, hk.Names[want], st.A, stepTimeout))
				return
			}
			cur[id] = pt
			if !scanEvents(i) {
				return
			}
			if wantNext := encodeGateOfPc[exp.Et[t]]; pt != wantNext {
				fail(i, "drift", "gate", fmt.Sprintf("after %s(%s) task %d is at %s, model pc %s", st.A, t, id, hk.Names[pt], exp.Et[t]))
				continue
			}
			if st.A == "EFin" {
				evs := rec.Events()
				for k := len(evs) - 1; k >= 0; k-- {
					if evs[k].Pt == kio.VH_E_FIN1 && evs[k].ID == id {
						if int(evs[k].B) != exp.Counter {
							fail(i, "drift", "counter", fmt.Sprintf("after EFin(%s) counter is %d, model %d", t, evs[k].B, exp.Counter))
						}
						break
					}
				}
			}
		default:
			fail(i, "inconclusive", "script", "unknown action "+st.A)
			return
		}
		if pending != nil && exp.Wpc == "idle" {
			select {
			case r := <-pending:
				pending = nil
				if !checkReturn(i, r, exp) {
					if freeRun && res.Status == "match" {
						prev = exp
						continue
					}
					return
				}
			case <-time.After(stepTimeout):
				if freeRun {
					fail(i, "violation", "termination", fmt.Sprintf("model: call returns after %s; real call still blocked after %v with all gates open", st.A, stepTimeout))
					return
				}
				// the real call may be waiting for tasks that the model does not have at this point and that sit at closed gates:
				// that is a divergence from the model, not a hang. Open the gates; only a call that does not return then is stuck.
				fail(i, "drift", "call-blocked", fmt.Sprintf("model: call returns after %s; real call still blocked after %v", st.A, stepTimeout))
				if !waitPending(i) {
					return
				}
			}
		}
		prev = exp
	}
	// the path ended: open the gates, let the pending call finish, then complete the history as a caller would
	// (Close, retried after a failure) and judge the outcome with the property predicates
	sched.Free()
	wasFree := freeRun
	freeRun = true
	if !waitPending(len(sc.Steps)) {
		return
	}
	for k := 0; k < 3 && !closeNil; k++ {
		atomic.StoreInt32(&inClose, 1)
		r, ok := gCall(len(sc.Steps), "close", func() (int, error) { return 0, w.Close() })
		if !ok {
			return
		}
		atomic.StoreInt32(&inClose, 0)
		if !checkReturn2(len(sc.Steps), r) {
			return
		}
	}
	if wasFree && res.Status == "match" {
		res.Status, res.Pred, res.Detail, res.Step = driftDetail[0], driftDetail[1], driftDetail[2], driftStep
	}
	return
}

// cmdReplayWriter: kzh replay-writer <scenarios.ndjson> <results.ndjson> [realB] [seed] [par]
func cmdReplayWriter(args []string) int {
	in, err := os.Open(args[0])
	if err != nil {
		fmt.Fprintln(os.Stderr, err)
		return 2
	}
	defer in.Close()
	out, err := os.Create(args[1])
	if err != nil {
		fmt.Fprintln(os.Stderr, err)
		return 2
	}
	defer out.Close()
	realB := 2048
	seed := int64(1)
	par := 8
	if len(args) > 2 {
		fmt.Sscan(args[2], &realB)
	}
	if len(args) > 3 {
		fmt.Sscan(args[3], &seed)
	}
	if len(args) > 4 {
		fmt.Sscan(args[4], &par)
	}
	sc := bufio.NewScanner(in)
	sc.Buffer(make([]byte, 1<<20), 1<<28)
	bw := bufio.NewWriter(out)
	defer bw.Flush()
	type job struct {
		n int
		s *wScenario
	}
	jobs := make(chan job, 64)
	var mu sync.Mutex
	var wg sync.WaitGroup
	var nviol, nagain int32
	var again []job
	for k := 0; k < par; k++ {
		wg.Add(1)
		go func() {
			defer wg.Done()
			for j := range jobs {
				if atomic.LoadInt32(&nviol) >= 12 || atomic.LoadInt32(&nagain) >= 6 {
					// enough witnesses: the remaining scenarios would only cost time (hangs are bounded by timeouts)
					continue
				}
				r := replayWriterOne(j.s, realB, seed+int64(j.n), 3*time.Second)
				if r.Status == "violation" && r.Pred == "termination" {
					// "did not get there in time" while many scenarios run in parallel may be the load: the scenario is
					// replayed again alone, with longer bounds, after the others; only that replay is the verdict
					mu.Lock()
					again = append(again, j)
					mu.Unlock()
					// (a call that never returns keeps spinning in its abandoned goroutines: a handful of candidates is enough)
					atomic.AddInt32(&nagain, 1)
					continue
				}
				if r.Status == "violation" {
					atomic.AddInt32(&nviol, 1)
				}
				b, _ := json.Marshal(r)
				mu.Lock()
				bw.Write(b)
				bw.WriteByte('\n')
				mu.Unlock()
			}
		}()
	}
	n := 0
	for sc.Scan() {
		s := &wScenario{}
		if err := json.Unmarshal(sc.Bytes(), s); err != nil {
			fmt.Fprintln(os.Stderr, "bad scenario:", err)
			return 2
		}
		jobs <- job{n, s}
		n++
	}
	close(jobs)
	wg.Wait()
	for k, j := range again {
		if k >= 6 {
			break
		}
		r := replayWriterOne(j.s, realB, seed+int64(j.n), 12*time.Second)
		b, _ := json.Marshal(r)
		bw.Write(b)
		bw.WriteByte('\n')
	}
	return 0
}

func init() {
	commands["replay-writer"] = cmdReplayWriter
}
