package main

// Driver for C16: runs histograms through the real entropy.NormalizeFrequencies in both calling conventions.

import (
	"bufio"
	"encoding/json"
	"fmt"
	"os"

	"github.com/flanglet/kanzi-go/v2/entropy"
	"kzverif/tr"
)

type normCase struct {
	In   []int  `json:"in"`   // counts of the present symbols
	LR   uint   `json:"lr"`   // scale = 1 << lr
	Conv string `json:"conv"` // "sym": indexed by symbol over 256 entries; "compact": Huffman convention
	Pos  string `json:"pos"`  // placement of the symbols for conv "sym": "first" | "spread" | "last"
}

func runNorm(c normCase) tr.Ev {
	n := len(c.In)
	scale := 1 << c.LR
	total := 0
	big := false
	for _, f := range c.In {
		total += f
		if int64(f)*int64(scale) >= 1<<30 {
			big = true
		}
	}
	if int64(total)*int64(scale) >= 1<<30 {
		big = true
	}
	ev := tr.Ev{"ev": "NORM", "in": c.In, "scale": scale, "total": total, "conv": c.Conv, "big": big, "err": "", "panic": false}
	var freqs, alphabet []int
	pos := make([]int, n)
	if c.Conv == "compact" {
		freqs = make([]int, n, 256)
		alphabet = make([]int, n, 256)
		copy(freqs, c.In)
		for i := range pos {
			pos[i] = i
		}
	} else {
		freqs = make([]int, 256)
		alphabet = make([]int, 256)
		for i := 0; i < n; i++ {
			switch c.Pos {
			case "spread":
				pos[i] = i * 256 / n
			case "last":
				pos[i] = 256 - n + i
			default:
				pos[i] = i
			}
			freqs[pos[i]] = c.In[i]
		}
	}
	var ret int
	var err error
	func() {
		defer func() {
			if p := recover(); p != nil {
				ev["panic"] = true
				ev["err"] = fmt.Sprint(p)
			}
		}()
		ret, err = entropy.NormalizeFrequencies(freqs, alphabet, total, scale)
	}()
	if err != nil {
		ev["err"] = err.Error()
	}
	out := make([]int, n)
	alphaOK := ret == n
	present := map[int]bool{}
	for i := 0; i < n; i++ {
		out[i] = freqs[pos[i]]
		present[pos[i]] = true
		if i < len(alphabet) && ret == n && alphabet[i] != pos[i] {
			alphaOK = false
		}
	}
	for i, f := range freqs {
		if !present[i] && f != 0 {
			alphaOK = false
		}
	}
	ev["out"] = out
	ev["n"] = ret
	ev["alphaOK"] = alphaOK
	return ev
}

// kzh norm <cases.ndjson> <trace.ndjson>
func cmdNorm(args []string) int {
	in, err := os.Open(args[0])
	if err != nil {
		fmt.Fprintln(os.Stderr, err)
		return 2
	}
	defer in.Close()
	w, err := tr.Open(args[1])
	if err != nil {
		fmt.Fprintln(os.Stderr, err)
		return 2
	}
	sc := bufio.NewScanner(in)
	sc.Buffer(make([]byte, 1<<20), 1<<26)
	n := 0
	for sc.Scan() {
		var c normCase
		if err := json.Unmarshal(sc.Bytes(), &c); err != nil {
			fmt.Fprintln(os.Stderr, "bad case:", err)
			return 2
		}
		w.Emit(runNorm(c))
		n++
	}
	w.Close()
	fmt.Println(n)
	return 0
}

func init() {
	commands["norm"] = cmdNorm
}
