// Package gen produces deterministic test data by shape name, seed and size.
package gen

import (
	"encoding/binary"
	"math/rand"
	"sort"
	"strings"
)

// Shapes lists every data shape known to the generator.
var Shapes = []string{"random", "text", "utf8", "utf8wide", "dna", "dnalines", "exe", "wav", "bmp",
	"runs", "smallalpha", "skew", "zeros", "gzipmagic", "mixed", "ramp", "numeric", "html", "sparse", "x86", "hex", "nibbles", "alpha15", "alpha17", "base64", "dnarep", "bmptile", "crlfsplit", "tailrandom", "utf8cjk", "utf8dmg", "magictext", "magicmix", "hotquarter", "piecewise", "wordlist", "diskimg", "manual"}

var words = strings.Fields(`the of and to in is that it was for on are as with his they be at one have this from
or had by hot word but what some we can out other were all there when up use your how said an each she which do
their time if will way about many then them write would like so these her long make thing see him two has look
more day could go come did number sound no most people my over know water than call first who may down side been
now find any new work part take get place made live where after back little only round man year came show every
good me give our under name very through just form sentence great think say help low line differ turn cause much
mean before move right boy old too same tell does set three want air well also play small end put home read hand
port large spell add even land here must big high such follow act why ask men change went light kind off need
house picture try us again animal point mother world near build self earth father compression entropy transform
Block Stream Header Checksum Kanzi Lossless Huffman Range Coder Burrows Wheeler`)

// Make returns n bytes of the given shape. The same (shape, seed, n) always gives the same bytes.
func Make(shape string, seed int64, n int) []byte {
	if n <= 0 {
		return []byte{}
	}
	r := rand.New(rand.NewSource(seed*7919 + int64(len(shape))*104729 + 17))
	b := make([]byte, 0, n+64)

	// parametric shapes "<kind>:<value>" used for boundary sweeps of length / distance encodings
	if i := strings.IndexByte(shape, ':'); i > 0 {
		v := 0
		for _, ch := range shape[i+1:] {
			if ch >= '0' && ch <= '9' {
				v = v*10 + int(ch-'0')
			}
		}
		rb := func(k int) []byte {
			x := make([]byte, k)
			r.Read(x)
			return x
		}
		filler := func() {
			t := Make("text", seed+11, n)
			for len(b) < n {
				b = append(b, t[len(b)%len(t)])
			}
		}
		switch shape[:i] {
		case "litrun":
			// a literal run of exactly v incompressible bytes, then a long match (copy of the first 8 KiB), then text.
			// No 4 bytes occur twice inside the run (a chance repetition would let a match finder split the run).
			lit := rb(v)
			seen := make(map[uint32]bool, v)
			for p := 0; p+4 <= len(lit); p++ {
				k := binary.LittleEndian.Uint32(lit[p:])
				for tries := 0; seen[k] && tries < 64; tries++ {
					lit[p+3] = byte(r.Intn(256))
					k = binary.LittleEndian.Uint32(lit[p:])
				}
				seen[k] = true
			}
			b = append(b, lit...)
			k := 8192
			if k > len(lit) {
				k = len(lit)
			}
			b = append(b, lit[:k]...)
			filler()
		case "match":
			// a match of exactly v bytes: a random segment of v bytes, a separator, the same segment, a byte that differs
			seg := rb(v)
			b = append(b, rb(24)...)
			b = append(b, seg...)
			b = append(b, rb(40)...)
			b = append(b, seg...)
			b = append(b, rb(24)...)
			filler()
		case "dist":
			// the same 48 random bytes twice, exactly v bytes apart
			seg := rb(48)
			b = append(b, seg...)
			if v > 48 {
				b = append(b, rb(v-48)...)
			}
			b = append(b, seg...)
			filler()
		case "look":
			// a match finder with look-ahead: at position P a short match (5 bytes, 1000 bytes back) and at P+2 a long one (40 bytes)
			// whose distance is exactly v. A 128-byte key repeated just before both places resets the acceleration of scanners that
			// skip ahead in incompressible data, so that both positions are really visited.
			key := rb(128)
			a := rb(40)
			head := []byte{0x11, 0x22}
			const ax = 264
			pp := ax + v - 2
			yy := pp - 1000
			if yy-8-128 < ax+len(a)+8 {
				b = b[:0]
				break
			}
			d := rb(pp + 2 + len(a) + 100)
			for k, at := range []int{ax - 2, ax - 1, yy - 1, pp - 1} {
				d[at] = byte(0x77 + k)
			}
			copy(d[0:], key)
			copy(d[128:], key)
			copy(d[ax:], a)
			copy(d[yy-8-128:], key)
			copy(d[yy:], head)
			copy(d[yy+2:], a[:3])
			d[yy+5] = ^a[3]
			copy(d[pp-12-128:], key)
			copy(d[pp:], head)
			copy(d[pp+2:], a)
			b = append(b, d...)
			filler()
		case "elfarm":
			// a minimal ELF64 / AArch64 image with one PROGBITS section of BL and NOP instructions starting at file offset v
			// (v not a multiple of 4: an unusual but legal layout)
			if n < v+256 {
				b = b[:0]
				break
			}
			d := make([]byte, n)
			copy(d, []byte{0x7F, 'E', 'L', 'F', 2, 1, 1, 0})
			binary.LittleEndian.PutUint16(d[18:], 0xB7)
			binary.LittleEndian.PutUint64(d[0x28:], 0x40)
			binary.LittleEndian.PutUint16(d[0x3A:], 0x40)
			binary.LittleEndian.PutUint16(d[0x3C:], 1)
			binary.LittleEndian.PutUint32(d[0x40+4:], 1)
			binary.LittleEndian.PutUint64(d[0x40+0x18:], uint64(v))
			binary.LittleEndian.PutUint64(d[0x40+0x20:], uint64(n-v-64))
			for i := v; i+4 <= n-64; i += 4 {
				instr := uint32(0xD503201F)
				if r.Intn(4) == 0 {
					instr = 0x94000000 | uint32(r.Intn(200))
				}
				binary.LittleEndian.PutUint32(d[i:], instr)
			}
			b = append(b, d...)
		case "codepoints":
			// UTF-8 text of 3-byte characters with exactly v distinct code points (each used, most of them many times)
			cp := func(k int) rune { return rune(0x4E00 + k) }
			var sb []byte
			for k := 0; k < v && len(sb)+3 <= n-8; k++ {
				sb = append(sb, string(cp(k))...)
			}
			for len(sb)+3 <= n-8 {
				sb = append(sb, string(cp(r.Intn(min(v, 64))))...)
			}
			b = append(b, sb...)
			for len(b) < n {
				b = append(b, ' ')
			}
		case "records":
			// fixed-width records of v bytes (the last one a line feed) drawn in random order from 48 distinct values
			var vals [][]byte
			for k := 0; k < 48; k++ {
				rec := make([]byte, v)
				for i := range rec {
					rec[i] = byte('A' + r.Intn(26))
				}
				if v > 0 {
					rec[v-1] = '\n'
				}
				vals = append(vals, rec)
			}
			for len(b) < n && v > 0 {
				b = append(b, vals[r.Intn(len(vals))]...)
			}
		case "taildmg":
			// valid multi-byte text whose v-th byte from the end is the lead byte of a 3-byte character followed by a byte that is
			// not a continuation byte (the last few bytes of a block are where a cut character may legitimately sit)
			for len(b) < n {
				b = append(b, []byte("h\u00e9llo w\u00f6rld \u03b5\u03bb\u03bb\u03b7\u03bd\u03b9\u03ba\u03ac \u0440\u0443\u0441\u0441\u043a\u0438\u0439 \u65e5\u672c\u8a9e ")...)
			}
			for len(b)%1 != 0 {
				b = append(b, 'a')
			}
			b = b[:n]
			// (cutting may have split a character: overwrite the tail with ASCII)
			for k := n - v - 16; k < n && k >= 0; k++ {
				b[k] = 'a'
			}
			if v >= 1 && v <= n {
				b[n-v] = 0xE1
				if v >= 2 {
					b[n-v+1] = 0x41
				}
				if v >= 3 {
					b[n-v+2] = 0x80
				}
			}
		case "contlead":
			// valid wide UTF-8 text behind v stray continuation bytes: a block cut inside a character starts with up to three of
			// them, v >= 4 is what a damaged or mis-cut stream looks like
			for k := 0; k < v; k++ {
				b = append(b, byte(0x80+r.Intn(0x40)))
			}
			t := Make("utf8cjk", seed+3, n)
			b = append(b, t...)
		case "runlen", "zrun":
			// a run of exactly v equal bytes (zeros for zrun) between incompressible neighbours, then text, then the same run at the end
			c := byte(0)
			if shape[:i] == "runlen" {
				c = byte(1 + r.Intn(255))
			}
			b = append(b, rb(16)...)
			for k := 0; k < v; k++ {
				b = append(b, c)
			}
			b = append(b, c^0x5A)
			b = append(b, rb(16)...)
			if len(b)+v+1 < n {
				t := Make("text", seed+11, n-len(b)-v-1)
				b = append(b, t...)
				for k := 0; k < v; k++ {
					b = append(b, c)
				}
			}
			filler()
		default:
			b = b[:0]
		}
		if len(b) > 0 {
			if len(b) > n {
				b = b[:n]
			}
			return b
		}
	}

	switch shape {
	case "random":
		b = b[:n]
		r.Read(b)
	case "zeros":
		b = b[:n]
	case "text":
		for len(b) < n {
			w := words[r.Intn(len(words))]
			b = append(b, w...)
			switch r.Intn(12) {
			case 0:
				b = append(b, '.', ' ')
			case 1:
				b = append(b, ',', ' ')
			case 2:
				b = append(b, '\r', '\n')
			case 3:
				b = append(b, '\n')
			default:
				b = append(b, ' ')
			}
		}
	case "html":
		tags := []string{"div", "span", "p", "a href=\"http://example.org/x\"", "td", "tr", "li", "b"}
		for len(b) < n {
			t := tags[r.Intn(len(tags))]
			b = append(b, '<')
			b = append(b, t...)
			b = append(b, '>')
			for k := r.Intn(6); k >= 0; k-- {
				b = append(b, words[r.Intn(len(words))]...)
				b = append(b, ' ')
			}
			b = append(b, "</"...)
			b = append(b, strings.Fields(t)[0]...)
			b = append(b, ">\n"...)
		}
	case "utf8":
		// narrow: Latin-1 supplement and Cyrillic mixed with ASCII
		for len(b) < n {
			switch r.Intn(4) {
			case 0:
				b = append(b, string(rune(0xC0+r.Intn(0x3F)))...)
			case 1, 2:
				b = append(b, string(rune(0x410+r.Intn(0x40)))...)
			default:
				b = append(b, byte('a'+r.Intn(26)))
			}
			if r.Intn(7) == 0 {
				b = append(b, ' ')
			}
		}
	case "utf8wide":
		// many distinct 3 and 4 byte code points
		for len(b) < n {
			switch r.Intn(5) {
			case 0:
				b = append(b, string(rune(0x1F300+r.Intn(0x400)))...)
			case 1:
				b = append(b, string(rune(0x3040+r.Intn(0xC0)))...)
			default:
				b = append(b, string(rune(0x4E00+r.Intn(0x5000)))...)
			}
		}
	case "utf8cjk", "utf8dmg":
		// text in 3-byte code points (Hangul, kana, CJK) over a limited vocabulary, with ASCII spaces and punctuation;
		// utf8dmg: the same with sparse byte-level damage (a continuation byte replaced by ASCII, a truncated sequence, a stray
		// continuation byte, an invalid lead byte): almost valid UTF-8, which detection heuristics may still classify as UTF-8
		vocab := make([]rune, 300)
		for i := range vocab {
			switch i % 3 {
			case 0:
				vocab[i] = rune(0xAC00 + r.Intn(0x2BA3)) // Hangul syllables: EA..ED lead bytes
			case 1:
				vocab[i] = rune(0x3040 + r.Intn(0xC0))
			default:
				vocab[i] = rune(0x4E00 + r.Intn(0x5000))
			}
		}
		for len(b) < n {
			wl := 1 + r.Intn(6)
			for k := 0; k < wl; k++ {
				b = append(b, string(vocab[r.Intn(len(vocab))])...)
			}
			if r.Intn(9) == 0 {
				b = append(b, ". "...)
			} else {
				b = append(b, ' ')
			}
			if r.Intn(40) == 0 {
				b = append(b, '\n')
			}
		}
		b = b[:n]
		if shape == "utf8dmg" {
			// one kind of damage, applied to sequences starting with one lead byte (both chosen by the seed, so that consecutive
			// seeds enumerate the combinations): a validity rule that is wrong for one lead byte is not masked by another damage
			// that is detected correctly
			var leads []byte
			seen := map[byte]bool{}
			for _, c := range b {
				if c&0xF0 == 0xE0 && !seen[c] {
					seen[c] = true
					leads = append(leads, c)
				}
			}
			if len(leads) == 0 {
				return b
			}
			sort.Slice(leads, func(i, j int) bool { return leads[i] < leads[j] })
			us := uint64(seed)
			kind := int(us % 5)
			lead := leads[int(us/5)%len(leads)]
			hits := 1 + int(us/5/uint64(len(leads)))%3
			for q := 100 + r.Intn(n/2+1); q+4 < len(b) && hits > 0; q++ {
				if b[q] != lead {
					continue
				}
				hits--
				switch kind {
				case 0:
					b[q+1] = byte('A' + r.Intn(26))
				case 1:
					b[q+2] = byte('a' + r.Intn(26))
				case 2:
					copy(b[q+2:], b[q+3:])
					b[len(b)-1] = ' '
				case 3:
					b[q+1] = 0xC0 | (b[q+1] & 0x3F) // a second lead byte where a continuation byte is expected
				default:
					b[q+1], b[q+2] = b[q+2], ' ' // continuation byte missing at the end of the sequence
				}
				q += 3 + r.Intn(2000)
			}
		}
		return b
	case "dna":
		for len(b) < n {
			b = append(b, "ACGT"[r.Intn(4)])
		}
	case "dnalines":
		b = append(b, ">seq1 test sequence\n"...)
		col := 0
		for len(b) < n {
			if r.Intn(200) == 0 {
				b = append(b, 'N')
			} else {
				b = append(b, "ACGT"[r.Intn(4)])
			}
			col++
			if col == 60 {
				b = append(b, '\n')
				col = 0
			}
		}
	case "exe":
		// ELF magic then x86-like code with relative calls/jumps
		hdr := []byte{0x7F, 'E', 'L', 'F', 2, 1, 1, 0, 0, 0, 0, 0, 0, 0, 0, 0, 2, 0, 0x3E, 0}
		b = append(b, hdr...)
		for len(b) < n {
			switch r.Intn(6) {
			case 0:
				b = append(b, 0xE8)
				var a [4]byte
				binary.LittleEndian.PutUint32(a[:], uint32(r.Intn(1<<16)))
				b = append(b, a[:]...)
			case 1:
				b = append(b, 0xE9)
				var a [4]byte
				binary.LittleEndian.PutUint32(a[:], uint32(-r.Intn(1<<12)))
				b = append(b, a[:]...)
			case 2:
				b = append(b, 0x0F, byte(0x80+r.Intn(16)), byte(r.Intn(256)), byte(r.Intn(4)), 0, 0)
			case 3:
				b = append(b, 0x48, 0x89, byte(0xC0+r.Intn(64)))
			case 4:
				b = append(b, 0x55, 0x48, 0x8B, 0xEC)
			default:
				b = append(b, 0x90, byte(r.Intn(256)))
			}
		}
	case "x86":
		// code-like bytes without any header: relative calls and jumps every few instructions, enough 0x00 / 0xFF
		// bytes to pass the executable heuristics of the EXE transform
		for len(b) < n {
			switch r.Intn(10) {
			case 0, 1:
				off := r.Intn(1 << 14)
				if r.Intn(3) == 0 {
					off = -off
				}
				var a [4]byte
				binary.LittleEndian.PutUint32(a[:], uint32(off))
				b = append(b, byte(0xE8+r.Intn(2)))
				b = append(b, a[:]...)
			case 2:
				b = append(b, 0x0F, byte(0x80+r.Intn(16)), byte(r.Intn(256)), byte(r.Intn(16)), 0, 0)
			case 3, 4:
				b = append(b, 0x48, 0x8B, byte(r.Intn(256)), 0x00, 0x00, 0x00)
			case 5:
				b = append(b, 0xFF, byte(r.Intn(256)), 0xFF, 0xFF)
			default:
				for k := r.Intn(8); k >= 0; k-- {
					b = append(b, byte(16+r.Intn(240)))
				}
			}
		}
	case "wav":
		h := make([]byte, 44)
		copy(h, "RIFF")
		binary.LittleEndian.PutUint32(h[4:], uint32(n-8))
		copy(h[8:], "WAVEfmt ")
		binary.LittleEndian.PutUint32(h[16:], 16)
		binary.LittleEndian.PutUint16(h[20:], 1)
		binary.LittleEndian.PutUint16(h[22:], 2)
		binary.LittleEndian.PutUint32(h[24:], 44100)
		binary.LittleEndian.PutUint32(h[28:], 176400)
		binary.LittleEndian.PutUint16(h[32:], 4)
		binary.LittleEndian.PutUint16(h[34:], 16)
		copy(h[36:], "data")
		binary.LittleEndian.PutUint32(h[40:], uint32(n-44))
		b = append(b, h...)
		l, rr := 0, 0
		for len(b) < n {
			l += r.Intn(301) - 150
			rr += r.Intn(301) - 150
			b = append(b, byte(l), byte(l>>8), byte(rr), byte(rr>>8))
		}
	case "bmp":
		h := make([]byte, 54)
		copy(h, "BM")
		binary.LittleEndian.PutUint32(h[2:], uint32(n))
		binary.LittleEndian.PutUint32(h[10:], 54)
		binary.LittleEndian.PutUint32(h[14:], 40)
		binary.LittleEndian.PutUint32(h[18:], 256)
		binary.LittleEndian.PutUint32(h[22:], 256)
		binary.LittleEndian.PutUint16(h[26:], 1)
		binary.LittleEndian.PutUint16(h[28:], 24)
		b = append(b, h...)
		c := [3]int{128, 128, 128}
		for len(b) < n {
			for k := 0; k < 3; k++ {
				c[k] += r.Intn(7) - 3
				b = append(b, byte(c[k]))
			}
		}
	case "runs":
		for len(b) < n {
			v := byte(r.Intn(8) * 31)
			l := 1 + r.Intn(300)
			if r.Intn(4) == 0 {
				l = 1 + r.Intn(4)
			}
			for k := 0; k < l; k++ {
				b = append(b, v)
			}
		}
	case "dnarep":
		// DNA with repeated motifs and point mutations (long matches for the LZ family)
		motifs := make([][]byte, 40)
		for i := range motifs {
			m := make([]byte, 20+r.Intn(200))
			for k := range m {
				m[k] = "ACGT"[r.Intn(4)]
			}
			motifs[i] = m
		}
		for len(b) < n {
			m := motifs[r.Intn(len(motifs))]
			for _, c := range m {
				if r.Intn(60) == 0 {
					c = "ACGT"[r.Intn(4)]
				}
				b = append(b, c)
			}
		}
	case "bmptile":
		// bitmap whose rows repeat a tile, with a little noise
		h := make([]byte, 54)
		copy(h, "BM")
		binary.LittleEndian.PutUint32(h[2:], uint32(n))
		binary.LittleEndian.PutUint32(h[10:], 54)
		binary.LittleEndian.PutUint32(h[14:], 40)
		binary.LittleEndian.PutUint32(h[18:], 128)
		binary.LittleEndian.PutUint32(h[22:], 128)
		binary.LittleEndian.PutUint16(h[26:], 1)
		binary.LittleEndian.PutUint16(h[28:], 24)
		b = append(b, h...)
		tile := make([]byte, 96)
		for k := range tile {
			tile[k] = byte(40 + 2*(k%48) + r.Intn(3))
		}
		for len(b) < n {
			for _, c := range tile {
				if r.Intn(40) == 0 {
					c += byte(r.Intn(5))
				}
				b = append(b, c)
			}
		}
	case "crlfsplit":
		// DOS text whose 64-byte records are shifted by one byte: every offset that is a multiple of 64 falls between
		// a CR and its LF, so blocks (sizes are multiples of 16, usually of 64) start with LF and end with CR
		b = append(b, '\n')
		for len(b) < n {
			for k := 0; k < 62; k++ {
				b = append(b, words[r.Intn(len(words))][0])
			}
			b = append(b, '\r', '\n')
		}
	case "tailrandom":
		// compressible text followed by an incompressible tail (the last, short block behaves differently)
		cut := n - n/5
		b = append(b, Make("text", seed+1, cut)...)
		tail := make([]byte, n-cut)
		r.Read(tail)
		b = append(b, tail...)
	case "hex":
		for len(b) < n {
			b = append(b, "0123456789abcdef"[r.Intn(16)])
		}
	case "nibbles":
		for len(b) < n {
			b = append(b, byte(r.Intn(16)))
		}
	case "alpha15":
		for len(b) < n {
			b = append(b, byte(100+7*r.Intn(15)))
		}
	case "alpha17":
		for len(b) < n {
			b = append(b, byte(3+11*r.Intn(17)))
		}
	case "base64":
		for len(b) < n {
			b = append(b, "ABCDEFGHIJKLMNOPQRSTUVWXYZabcdefghijklmnopqrstuvwxyz0123456789+/"[r.Intn(64)])
			if len(b)%77 == 76 {
				b = append(b, '\n')
			}
		}
	case "smallalpha":
		for len(b) < n {
			b = append(b, "abc"[r.Intn(3)])
		}
	case "skew":
		// a few dominant symbols plus many rare ones (stresses frequency scaling)
		rare := 1 + r.Intn(200)
		for len(b) < n {
			if r.Intn(64) == 0 {
				b = append(b, byte(40+r.Intn(rare)))
			} else {
				b = append(b, byte(r.Intn(2)))
			}
		}
	case "sparse":
		b = b[:n]
		for k := 0; k < n/97+1; k++ {
			b[r.Intn(n)] = byte(1 + r.Intn(255))
		}
	case "ramp":
		for len(b) < n {
			b = append(b, byte(len(b)))
		}
	case "numeric":
		for len(b) < n {
			b = append(b, byte('0'+r.Intn(10)))
			if r.Intn(6) == 0 {
				b = append(b, ',')
			}
		}
	case "magictext", "magicmix":
		// a container of small "files": every 1024 bytes (so every block of any legal size that is a multiple of 1024) starts with
		// a file signature; the content is text (magictext) or rotates over text / DNA / x86 / multimedia-like (magicmix)
		sigs := [][]byte{{'B', 'M', 0x36, 0x10}, {'R', 'I', 'F', 'F'}, {0x7F, 'E', 'L', 'F'}, {'P', 'K', 3, 4}, {'G', 'I', 'F', '8'},
			{0x1F, 0x8B, 8, 0}, {'M', 'Z', 0x90, 0}, {'%', 'P', 'D', 'F'}, {0x89, 'P', 'N', 'G'}, {'P', '5', 0x0A, '6'}, {0xFF, 0xD8, 0xFF, 0xE0}, {'f', 'L', 'a', 'C'}}
		kinds := []string{"text", "dna", "x86", "wav", "html", "utf8"}
		var body []byte
		if shape == "magictext" {
			body = Make("text", seed+5, n)
		}
		k := int(seed) & 0xFFFF
		for len(b) < n {
			piece := 1024
			if len(b)+piece > n {
				piece = n - len(b)
			}
			var src []byte
			if shape == "magictext" {
				src = body[len(b) : len(b)+piece]
			} else {
				src = Make(kinds[(k+len(b)/4096)%len(kinds)], seed+int64(len(b)), piece)
			}
			start := len(b)
			b = append(b, src...)
			// one 1024-byte piece in eight keeps its own first bytes
			if (start/1024+k)%8 != 7 {
				copy(b[start:], sigs[(start/1024+k)%len(sigs)])
			}
		}
	case "wordlist":
		// a list of words that are (almost) all different: dictionaries of the text transforms fill up and wrap, word indexes get
		// large; the last few hundred words are repeated at the end (references to entries registered late)
		var recent [][]byte
		for len(b) < n {
			w := make([]byte, 5+r.Intn(3))
			x := r.Uint64()
			for i := range w {
				w[i] = byte('a' + x%26)
				x /= 26
			}
			repeat := len(b) > n-30000 && len(recent) > 3000 && r.Intn(2) == 0
			if repeat {
				// one of the last few thousand new words
				w = recent[r.Intn(len(recent))]
			}
			b = append(b, w...)
			b = append(b, []byte{' ', ' ', '\n', ' '}[r.Intn(4)])
			if !repeat {
				if len(recent) < 4000 {
					recent = append(recent, w)
				} else {
					recent = append(recent[1:], w)
				}
			}
		}
	case "diskimg":
		// a disk image: a good third of zero sectors, the rest looks encrypted (every byte value is frequent, zero dominates)
		for len(b) < n {
			sec := make([]byte, 512)
			if r.Intn(100) >= 38 {
				r.Read(sec)
			}
			b = append(b, sec...)
		}
	case "manual":
		// a paginated manual: words, numbers, and page breaks written as form feed / vertical tab right after a word
		// that has often not been seen before (page numbers in words, section names)
		syll := []string{"ka", "to", "mi", "ra", "ne", "so", "lu", "vi", "po", "de", "xa", "qui", "zen", "bor", "tal"}
		for len(b) < n {
			for l := 0; l < 30 && len(b) < n; l++ {
				for wd := 0; wd < 8; wd++ {
					b = append(b, words[r.Intn(len(words))]...)
					b = append(b, ' ')
				}
				b = append(b, '\n')
			}
			// a fresh word directly followed by the page break
			for k := 2 + r.Intn(3); k > 0; k-- {
				b = append(b, syll[r.Intn(len(syll))]...)
			}
			b = append(b, []byte{'\f', '\v', '\f'}[r.Intn(3)])
		}
	case "hotquarter":
		// skewed and not stationary: half 0x00, a quarter 0x01, and the other 254 values concentrated in one 4 KiB quarter of
		// every 16 KiB (a prefix code costs up to 12 bits per byte there, 1-2 bits elsewhere)
		hot := int(seed) & 3
		for len(b) < n {
			q := (len(b) >> 12) & 3
			x := r.Intn(4)
			switch {
			case q == hot && x >= 1:
				b = append(b, byte(2+r.Intn(254)))
			case x <= 1:
				b = append(b, 0)
			case x == 2:
				b = append(b, 1)
			default:
				b = append(b, byte(r.Intn(3)))
			}
		}
	case "piecewise":
		// piecewise stationary: every 4 KiB piece has its own small alphabet and skew
		for len(b) < n {
			base := byte(r.Intn(256))
			span := 1 + r.Intn(40)
			if r.Intn(4) == 0 {
				span = 256
			}
			geo := r.Intn(3)
			for i := 0; i < 4096 && len(b) < n; i++ {
				v := r.Intn(span)
				if geo > 0 {
					v = v * r.Intn(span+1) / (span + 1)
				}
				b = append(b, base+byte(v))
			}
		}
	case "gzipmagic":
		b = append(b, 0x1F, 0x8B, 8, 0)
		for len(b) < n {
			b = append(b, byte(r.Intn(256)))
		}
	case "mixed":
		parts := []string{"text", "random", "dna", "runs", "exe", "utf8", "zeros", "skew"}
		for len(b) < n {
			p := parts[r.Intn(len(parts))]
			l := 1 + r.Intn(n/3+1)
			b = append(b, Make(p, seed+int64(len(b))+1, l)...)
		}
	default:
		b = b[:n]
		r.Read(b)
	}

	if len(b) > n {
		b = b[:n]
	}
	for len(b) < n {
		b = append(b, 0)
	}
	return b
}
