"""Common machinery for the kanzi-go verification checks (see /verif/DESIGN.md).

Exit codes used by checks: 0 = property held on everything explored, 1 = violation (with a
`VIOLATION property=<id> replay=<path>` line), 2 = the machinery itself failed (never a violation).
"""
import json, os, re, shutil, subprocess, sys, time, hashlib, tempfile, random

VERIF = os.path.dirname(os.path.dirname(os.path.abspath(__file__)))
# The registered checks always verify /repo. For the validation of the machinery itself (seeded defects living in
# scratch worktrees) KZ_REPO points the harness at another tree; all outputs then go to a private directory.
REPO = os.environ.get('KZ_REPO', '/repo').rstrip('/')
BUILD = os.path.join(VERIF, '.build')
SPECS = os.path.join(VERIF, 'specs')
EVID = os.path.join(VERIF, 'evidence')
REPLAYS = os.path.join(VERIF, 'replays')
HARNESS = os.path.join(VERIF, 'harness')
ALT = REPO != '/repo'
if ALT:
    BUILD = os.path.join(VERIF, '.build', 'alt-' + hashlib.sha1(REPO.encode()).hexdigest()[:10])
    EVID = os.path.join(BUILD, 'evidence')
    REPLAYS = os.path.join(BUILD, 'replays')
NCPU = os.cpu_count() or 4


class ToolFailure(Exception):
    """Raised when tooling (build, TLC, driver) fails: mapped to exit code 2."""


def log(*a):
    print(*a, file=sys.stderr, flush=True)


def seed():
    try:
        return int(os.environ.get('VERIF_SEED', '1'))
    except ValueError:
        return 1


def tier(default='quick'):
    return os.environ.get('VERIF_TIER', default)


def goenv():
    e = dict(os.environ)
    e['GOFLAGS'] = '-mod=mod'
    e['GOPROXY'] = 'off'
    e.pop('GOSUMDB', None)
    e['GOTOOLCHAIN'] = 'auto'
    e.setdefault('GOCACHE', os.path.join(VERIF, '.build', 'gocache'))
    return e


def ensure_dirs():
    for d in (BUILD, EVID, REPLAYS, os.path.join(BUILD, 'bin'), os.path.join(BUILD, 'tlc')):
        os.makedirs(d, exist_ok=True)


def run(cmd, timeout=None, env=None, cwd=None, check=False, stdin=None):
    t0 = time.time()
    try:
        p = subprocess.run(cmd, stdout=subprocess.PIPE, stderr=subprocess.PIPE, timeout=timeout, env=env,
                           cwd=cwd, input=stdin)
    except subprocess.TimeoutExpired as ex:
        raise ToolFailure('timeout after %ss: %s' % (timeout, ' '.join(cmd[:6])))
    out = p.stdout.decode('utf-8', 'replace')
    err = p.stderr.decode('utf-8', 'replace')
    if check and p.returncode != 0:
        raise ToolFailure('command failed (%d): %s\n%s\n%s' % (p.returncode, ' '.join(cmd[:8]), out[-3000:], err[-3000:]))
    return p.returncode, out, err, time.time() - t0


_built = {}


def build_harness(race=False, name='kzh', tags='verif', pkg='./cmd/kzh'):
    """Build the Go harness against /repo's current working tree. Returns the binary path."""
    ensure_dirs()
    key = (name, race, tags)
    if key in _built:
        return _built[key]
    out = os.path.join(BUILD, 'bin', name + ('-race' if race else ''))
    cmd = ['go', 'build', '-tags', tags, '-o', out]
    if race:
        cmd.append('-race')
    if ALT:
        mod = os.path.join(BUILD, 'go.alt.mod')
        with open(mod, 'w') as fh:
            fh.write(open(os.path.join(HARNESS, 'go.mod')).read().replace('/repo/v2', REPO + '/v2'))
        open(os.path.join(BUILD, 'go.alt.sum'), 'a').close()
        cmd.append('-modfile=' + mod)
    cmd.append(pkg)
    env = goenv()
    rc, so, se, dt = run(cmd, timeout=900, env=env, cwd=HARNESS)
    if rc != 0:
        # fall back to the newer local toolchain
        env2 = dict(env)
        env2['GOTOOLCHAIN'] = 'local'
        cmd2 = ['go1.26'] + cmd[1:]
        rc2, so2, se2, dt2 = run(cmd2, timeout=900, env=env2, cwd=HARNESS)
        if rc2 != 0:
            raise ToolFailure('harness build failed:\n' + se[-4000:] + '\n' + se2[-2000:])
    _built[key] = out
    return out


def build_cli():
    """Build the kanzi command line tool from /repo's working tree."""
    ensure_dirs()
    if 'cli' in _built:
        return _built['cli']
    out = os.path.join(BUILD, 'bin', 'kanzi')
    rc, so, se, dt = run(['go', 'build', '-o', out, './app'], timeout=900, env=goenv(), cwd=os.path.join(REPO, 'v2'))
    if rc != 0:
        raise ToolFailure('cli build failed:\n' + se[-4000:])
    _built['cli'] = out
    return out


# ------------------------------------------------------------------------------------------------
# TLC

TLC_JAR = '/opt/veriftools/tla/tla2tools.jar:/opt/veriftools/tla/CommunityModules-deps.jar'


class TlcResult:
    def __init__(self):
        self.rc = 0
        self.out = ''
        self.generated = 0
        self.distinct = 0
        self.depth = 0
        self.violated = None      # name of violated invariant/property
        self.error = None         # other error text
        self.wall = 0.0
        self.dir = None
        self.trace_states = []    # parsed counterexample states (list of dicts name->text)

    @property
    def ok(self):
        return self.violated is None and self.error is None


def scratch(prefix):
    ensure_dirs()
    d = tempfile.mkdtemp(prefix=prefix + '.', dir=os.path.join(BUILD, 'tlc'))
    return d


def copy_specs(dst, extra_files=None):
    for f in os.listdir(SPECS):
        if f.endswith('.tla'):
            shutil.copy(os.path.join(SPECS, f), dst)
    for name, text in (extra_files or {}).items():
        with open(os.path.join(dst, name), 'w') as fh:
            fh.write(text)


def tlc(module, cfg_text, workers=None, timeout=600, extra_files=None, args=None, env_extra=None, keep=False,
        heap=None, dfs=False, workdir=None, xss=None):
    """Run TLC on `module` (a file name without .tla present in specs/ or extra_files) with cfg text."""
    d = workdir or scratch(module)
    copy_specs(d, extra_files)
    with open(os.path.join(d, module + '.cfg'), 'w') as fh:
        fh.write(cfg_text)
    w = str(workers or 1)
    java = ['java', '-XX:+UseParallelGC', '-XX:ParallelGCThreads=2', '-XX:CICompilerCount=2', '-XX:TieredStopAtLevel=1', '-Xss64m']
    if (workers or 1) > 2:
        java = ['java', '-XX:+UseParallelGC', '-Xss64m']
    if xss:
        java = [a for a in java if not a.startswith('-Xss')] + ['-Xss' + xss]
    if heap:
        java.append('-Xmx' + heap)
    if dfs:
        java.append('-Dtlc2.tool.queue.IStateQueue=StateDeque')
    cmd = java + ['-cp', TLC_JAR, 'tlc2.TLC', '-workers', w, '-metadir', os.path.join(d, 'meta'),
                  '-config', module + '.cfg', '-noGenerateSpecTE'] + (args or []) + [module + '.tla']
    env = dict(os.environ)
    env.pop('JAVA_TOOL_OPTIONS', None)
    env.update(env_extra or {})
    res = TlcResult()
    res.dir = d
    t0 = time.time()
    try:
        p = subprocess.run(cmd, cwd=d, stdout=subprocess.PIPE, stderr=subprocess.STDOUT, timeout=timeout, env=env)
        res.rc = p.returncode
        res.out = p.stdout.decode('utf-8', 'replace')
    except subprocess.TimeoutExpired as ex:
        res.rc = -9
        res.out = (ex.stdout or b'').decode('utf-8', 'replace')
        res.error = 'TLC timeout after %ds' % timeout
    res.wall = time.time() - t0
    parse_tlc(res)
    if not keep and res.ok and workdir is None:
        shutil.rmtree(d, ignore_errors=True)
    return res


def parse_tlc(res):
    o = res.out
    m = None
    for m in re.finditer(r'(\d+) states generated, (\d+) distinct states found', o):
        pass
    if m:
        res.generated = int(m.group(1))
        res.distinct = int(m.group(2))
    m = re.search(r'The depth of the complete state graph search is (\d+)', o)
    if m:
        res.depth = int(m.group(1))
    m = re.search(r'Error: Invariant (\S+) is violated', o)
    if m:
        res.violated = m.group(1)
    m2 = re.search(r'Error: Action property (\S+) is violated', o)
    if m2 and not res.violated:
        res.violated = m2.group(1)
    if 'Error: Temporal properties were violated' in o and not res.violated:
        res.violated = 'temporal'
    if 'Error: Deadlock reached' in o and not res.violated:
        res.violated = 'deadlock'
    m3 = re.search(r'Error: The postcondition (\S+)? ?.*', o)
    if 'postcondition' in o.lower() and 'violated' in o.lower() and not res.violated:
        res.violated = 'postcondition'
    if res.violated is None and res.error is None:
        if re.search(r'^Error:', o, re.M) or 'Exception' in o and 'Finished in' not in o:
            mm = re.search(r'Error:.*(?:\n.*){0,6}', o)
            res.error = mm.group(0) if mm else 'TLC error'
        elif res.rc != 0:
            res.error = 'TLC exit code %d' % res.rc
    if res.violated:
        res.trace_states = parse_trace_states(o)


def parse_trace_states(o):
    """Parse the counterexample printed by TLC into a list of {var: text}."""
    states = []
    cur = None
    for line in o.splitlines():
        m = re.match(r'^State (\d+): (.*)$', line)
        if m:
            cur = {'_n': int(m.group(1)), '_action': m.group(2)}
            states.append(cur)
            continue
        if cur is None:
            continue
        m = re.match(r'^/\\ (\w+) = (.*)$', line)
        if m:
            cur[m.group(1)] = m.group(2)
            cur['_last'] = m.group(1)
        elif line.strip() == '':
            cur = None
        elif '_last' in cur and not line.startswith('Error') and not re.match(r'^\d+ states', line):
            cur[cur['_last']] += ' ' + line.strip()
    return states


# ------------------------------------------------------------------------------------------------
# TLA+ value parser (for state graph dumps and counterexamples)

class _P:
    def __init__(self, s):
        self.s = s
        self.i = 0

    def ws(self):
        while self.i < len(self.s) and self.s[self.i] in ' \n\t\r':
            self.i += 1

    def peek(self, t):
        self.ws()
        return self.s.startswith(t, self.i)

    def eat(self, t):
        self.ws()
        if not self.s.startswith(t, self.i):
            raise ValueError('expected %r at %d in %r' % (t, self.i, self.s[max(0, self.i - 20):self.i + 20]))
        self.i += len(t)

    def value(self):
        self.ws()
        s = self.s
        if self.peek('<<'):
            self.eat('<<')
            items = []
            if self.peek('>>'):
                self.eat('>>')
                return items
            while True:
                items.append(self.value())
                if self.peek(','):
                    self.eat(',')
                else:
                    break
            self.eat('>>')
            return items
        if self.peek('['):
            self.eat('[')
            rec = {}
            while True:
                self.ws()
                m = re.compile(r'\w+').match(s, self.i)
                key = m.group(0)
                self.i = m.end()
                self.eat('|->')
                rec[key] = self.value()
                if self.peek(','):
                    self.eat(',')
                else:
                    break
            self.eat(']')
            return rec
        if self.peek('('):
            # function: (k :> v @@ k :> v)
            self.eat('(')
            fn = {}
            while True:
                k = self.value()
                self.eat(':>')
                v = self.value()
                fn[k if not isinstance(k, list) else tuple(k)] = v
                if self.peek('@@'):
                    self.eat('@@')
                else:
                    break
            self.eat(')')
            return fn
        if self.peek('{'):
            self.eat('{')
            items = []
            if self.peek('}'):
                self.eat('}')
                return set()
            while True:
                v = self.value()
                items.append(tuple(v) if isinstance(v, list) else v)
                if self.peek(','):
                    self.eat(',')
                else:
                    break
            self.eat('}')
            try:
                return set(items)
            except TypeError:
                return items
        if self.peek('"'):
            self.i += 1
            j = s.index('"', self.i)
            v = s[self.i:j]
            self.i = j + 1
            return v
        m = re.compile(r'-?\d+').match(s, self.i)
        if m:
            self.i = m.end()
            return int(m.group(0))
        m = re.compile(r'TRUE|FALSE').match(s, self.i)
        if m:
            self.i = m.end()
            return m.group(0) == 'TRUE'
        m = re.compile(r'\w+').match(s, self.i)
        if m:
            self.i = m.end()
            return m.group(0)
        raise ValueError('cannot parse value at %d: %r' % (self.i, s[self.i:self.i + 30]))


def parse_value(text):
    return _P(text).value()


def parse_state(text):
    """Parse '/\\ a = 1 /\\ b = <<>>' into a dict of python values."""
    st = {}
    parts = re.split(r'(?:^|\n)\s*/\\ ', '\n' + text)
    for p in parts:
        p = p.strip()
        if not p:
            continue
        m = re.match(r'(\w+) = (.*)$', p, re.S)
        if m:
            st[m.group(1)] = parse_value(m.group(2))
    return st


def parse_dot(path):
    """Parse a TLC `-dump dot,actionlabels` file. Returns (nodes {id: state-text}, edges [(src,dst,label)], init ids)."""
    nodes, edges, inits = {}, [], []
    node_re = re.compile(r'^(-?\d+) \[label="(.*)"(,style = filled)?\];?$')
    edge_re = re.compile(r'^(-?\d+) -> (-?\d+) \[label="(.*?)",')
    with open(path) as fh:
        for line in fh:
            line = line.rstrip('\n')
            m = edge_re.match(line)
            if m:
                edges.append((m.group(1), m.group(2), m.group(3)))
                continue
            m = node_re.match(line)
            if m:
                txt = m.group(2).replace('\\n', '\n').replace('\\"', '"').replace('\\\\', '\\')
                nodes[m.group(1)] = txt
                if m.group(3):
                    inits.append(m.group(1))
    return nodes, edges, inits


def edge_cover_paths(nodes, edges, inits, max_len=400, rng=None, max_paths=None, stop_pred=None):
    """Greedy cover of every edge of the graph by paths from an initial state.

    Repeatedly: BFS from the init state to the nearest uncovered edge, then keep walking along uncovered
    edges (preferring them) until none is available or max_len is hit."""
    from collections import defaultdict, deque
    rng = rng or random.Random(1)
    adj = defaultdict(list)
    for k, (a, b, l) in enumerate(edges):
        adj[a].append((b, l, k))
    uncovered = set(range(len(edges)))
    # self-loops that are pure stuttering are dropped
    for k, (a, b, l) in enumerate(edges):
        if a == b:
            uncovered.discard(k)
    paths = []
    init = inits[0] if inits else None
    if init is None:
        return paths
    while uncovered and (max_paths is None or len(paths) < max_paths):
        # BFS to nearest uncovered edge
        prev = {init: None}
        dq = deque([init])
        target = None
        while dq and target is None:
            u = dq.popleft()
            for (v, l, k) in adj[u]:
                if k in uncovered:
                    target = (u, k)
                    break
                if v not in prev and v != u:
                    prev[v] = (u, k)
                    dq.append(v)
        if target is None:
            break
        u, k = target
        rev = []
        x = u
        while prev[x] is not None:
            pu, pk = prev[x]
            rev.append(pk)
            x = pu
        path = list(reversed(rev)) + [k]
        uncovered.discard(k)
        cur = edges[k][1]
        while len(path) < max_len:
            cands = [(v, l, kk) for (v, l, kk) in adj[cur] if kk in uncovered]
            if not cands:
                break
            v, l, kk = rng.choice(cands)
            path.append(kk)
            uncovered.discard(kk)
            cur = v
        paths.append(path)
    return paths


# ------------------------------------------------------------------------------------------------
# Trace validation

def validate_trace(trace_module, trace_file, cfg_text=None, timeout=600, extra_files=None, keep=False):
    """Run a Trace_* specification over an ndjson trace. The trace specs are total (every event is
    consumed) and compute property predicates into invariants; returns TlcResult with .violated set to
    the invariant name and .bad_line to the 1-based trace line at which it failed."""
    cfg = cfg_text or open(os.path.join(SPECS, trace_module + '.cfg')).read()
    res = tlc(trace_module, cfg, workers=1, timeout=timeout, extra_files=extra_files,
              env_extra={'TRACE_FILE': os.path.abspath(trace_file)}, keep=keep)
    res.bad_line = None
    if res.violated and res.trace_states:
        last = res.trace_states[-1]
        try:
            res.bad_line = int(last.get('l', '0')) - 1
        except ValueError:
            res.bad_line = None
        res.last_state = {k: v for k, v in last.items() if not k.startswith('_')}
    return res


def validate_runs(trace_module, trace_file, max_violations=25, timeout=1800, reset_ev='Reset'):
    """Validate a concatenation of runs in one TLC pass. The trace specs are total and judge each run on its
    own: the first violated predicate of a run is printed by TLC as <<"VIOLATION_AT", line, predicate>>.
    Returns (violations, stats); a violation is {bad, line, event, run (the Reset event), window}."""
    res = validate_trace(trace_module, trace_file, timeout=timeout)
    stats = {'distinct': res.distinct, 'generated': res.generated, 'wall': res.wall}
    if res.error or res.violated:
        raise ToolFailure('trace validation failed: %s %s\n%s' % (res.error, res.violated, res.out[-2500:]))
    hits = re.findall(r'<<"VIOLATION_AT", (\d+), "([^"]*)">>', res.out)
    violations = []
    if hits:
        lines = open(trace_file).read().splitlines()
        for (ln, bad) in hits[:max_violations]:
            k = int(ln) - 1
            lo = k
            while lo > 0 and json.loads(lines[lo]).get('ev') != reset_ev:
                lo -= 1
            violations.append({'bad': bad, 'line': int(ln), 'event': json.loads(lines[k]), 'run': json.loads(lines[lo]),
                               'window': [json.loads(x) for x in lines[max(lo, k - 12):k + 1]]})
        stats['violating_runs'] = len(hits)
    return violations, stats


def read_ndjson(path):
    out = []
    with open(path) as fh:
        for line in fh:
            line = line.strip()
            if line:
                out.append(json.loads(line))
    return out


# ------------------------------------------------------------------------------------------------
# Known findings

def load_known(pid):
    p = os.path.join(VERIF, 'known_findings.jsonl')
    out = []
    if os.path.exists(p):
        for line in open(p):
            line = line.strip()
            if not line or line.startswith('#'):
                continue
            try:
                d = json.loads(line)
            except ValueError:
                continue
            if d.get('property') == pid and d.get('status', 'open') == 'open':
                out.append(d)
    return out


def match_known(known, witness):
    """A known finding matches a witness when every key of its `match` dict equals the witness's value."""
    for k in known:
        m = k.get('match', {})
        if m and all(str(witness.get(a)) == str(b) for a, b in m.items()):
            return k
    return None


# ------------------------------------------------------------------------------------------------
# Evidence / verdict

class Check:
    def __init__(self, pid, level):
        self.pid = pid
        self.level = level
        self.t0 = time.time()
        self.tier = tier()
        self.seed = seed()
        self.cov = {'evaluations': 0, 'distinct_nontrivial': 0, 'rule': '', 'samples': [], 'states': 0,
                    'transitions': 0, 'traces_validated_against_impl': 0}
        self.assumptions = []
        self.violations = []   # (witness dict, replay path)
        self.known_hits = []
        self.notes = []
        self.known = load_known(pid)
        self.deferred = []     # tool failures that only count if no violation was found
        ensure_dirs()

    def add_tlc(self, res, label=None):
        self.cov['states'] += res.distinct
        self.cov['transitions'] += res.generated
        self.cov.setdefault('tlc_runs', []).append({'label': label or '', 'distinct': res.distinct,
                                                    'generated': res.generated, 'depth': res.depth,
                                                    'wall_s': round(res.wall, 2)})

    def sample(self, s, cap=6):
        if len(self.cov['samples']) < cap:
            self.cov['samples'].append(s)

    def save_replay(self, name, obj):
        os.makedirs(REPLAYS, exist_ok=True)
        self.nreplay = getattr(self, 'nreplay', 0) + 1
        path = os.path.join(REPLAYS, '%s_%s_%d_%d.json' % (self.pid, name, int(time.time() * 1000) % 100000000, self.nreplay))
        with open(path, 'w') as fh:
            json.dump(obj, fh, indent=1, default=str)
        return path

    def violation(self, witness, replay_obj=None, name='v'):
        k = match_known(self.known, witness)
        if k is not None:
            if k.get('id') not in [x.get('id') for x in self.known_hits]:
                self.known_hits.append(k)
            return False
        path = self.save_replay(name, {'property': self.pid, 'witness': witness, 'replay': replay_obj})
        self.violations.append((witness, path))
        return True

    def finish(self):
        wall = time.time() - self.t0
        ev = {'property_id': self.pid, 'tier': self.tier if self.tier in ('quick', 'thorough') else 'quick',
              'seed': self.seed, 'level': self.level, 'coverage': self.cov, 'assumptions': self.assumptions,
              'wall_s': round(wall, 2), 'violations': len(self.violations)}
        if self.notes:
            ev['coverage']['notes'] = self.notes
        if self.known_hits:
            ev['coverage']['known_findings_hit'] = [k.get('id') for k in self.known_hits]
        # checks X.. cover behaviour beyond the listed properties: own evidence directory, own verdict wording
        extra = self.pid.startswith('X')
        evdir = os.path.join(VERIF, 'evidence-extra') if extra else EVID
        os.makedirs(evdir, exist_ok=True)
        with open(os.path.join(evdir, self.pid + '.json'), 'w') as fh:
            json.dump(ev, fh, indent=1, default=str)
        if extra and self.violations:
            for w, path in self.violations[:20]:
                print('DEVIATION extra=%s (outside the listed properties) replay=%s' % (self.pid, path))
                log('  witness:', json.dumps(w, default=str)[:600])
            return 1
        for k in self.known_hits:
            print('KNOWN-FINDING: property=%s %s' % (self.pid, k.get('what', k.get('id'))))
        if self.violations:
            for w, path in self.violations[:20]:
                print('VIOLATION property=%s replay=%s' % (self.pid, path))
                log('  witness:', json.dumps(w, default=str)[:600])
            return 1
        if self.deferred:
            raise ToolFailure('; '.join(self.deferred)[:3000])
        print('OK property=%s tier=%s seed=%d evaluations=%d states=%d traces=%d wall=%.1fs' % (
            self.pid, self.tier, self.seed, self.cov['evaluations'], self.cov['states'],
            self.cov['traces_validated_against_impl'], wall))
        return 0


def main_wrapper(fn):
    try:
        rc = fn()
    except ToolFailure as ex:
        log('TOOL FAILURE:', ex)
        sys.exit(2)
    except Exception:
        import traceback
        traceback.print_exc()
        sys.exit(2)
    sys.exit(rc)
