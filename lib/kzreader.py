"""Reader-side machinery shared by C02, C05, C06, C07, C09, C11: KzReader model checking, replay of the
state-graph edge cover on the real Reader, record-mode drivers validated by Trace_Reader."""
import json, os, random, shutil
from concurrent.futures import ThreadPoolExecutor
import kzv, kzscen

INVS = 'TypeOK R_Mutex R_ReadOrder R_Prefix R_NothingAfterError R_EOFOnlyAtEnd R_SkipUntouched R_CompleteAtEOF R_ClosedRefuses R_Ownership'


def tla_seq(xs):
    return '<<' + ', '.join('"%s"' % x for x in xs) + '>>'


def tla_set(xs):
    return '{' + ', '.join(str(x) for x in sorted(xs)) + '}'


def mk(cfg, impl='fixed', liveness=False):
    """cfg: dict Jobs,B,Kinds,LastSz,ReadLens,HintBlocks,From,To,MaxPost. Returns (mc_text, cfg_text)."""
    mc = '---- MODULE MC_R ----\nEXTENDS KzReader\nMCKinds == %s\nMCReadLens == %s\n====\n' % (
        tla_seq(cfg['Kinds']), tla_set(cfg['ReadLens']))
    c = 'CONSTANTS\n Jobs = %d\n B = %d\n Kinds <- MCKinds\n LastSz = %d\n ReadLens <- MCReadLens\n HintBlocks = %d\n From = %d\n To = %d\n Impl = "%s"\n MaxPost = %d\n' % (
        cfg['Jobs'], cfg['B'], cfg['LastSz'], cfg['HintBlocks'], cfg['From'], cfg['To'], impl, cfg.get('MaxPost', 2))
    if liveness:
        c += 'SPECIFICATION FairSpec\nINVARIANTS %s\nPROPERTIES R_CancelSticks R_CallsReturn R_TasksFinish\n' % INVS
    else:
        c += 'SPECIFICATION Spec\nINVARIANTS %s\nPROPERTIES R_CancelSticks\n' % INVS
    return mc, c


def project(st):
    return {'counter': st['counter'], 'rpc': st['rpc'], 'outlen': len(st['out']), 'ret': st['lastRet'],
            'tpc': {str(k): v for k, v in st['tpc'].items()}, 'batchFirst': st['batchFirst'],
            'errSeen': st['errSeen'], 'eofSeen': st['eofSeen']}


def model_one(idx, cfg, dump, liveness, rng_seed, max_paths):
    mc, c = mk(cfg, liveness=liveness)
    d = kzv.scratch('kzr%d' % idx)
    args = []
    if dump:
        args = ['-dump', 'dot,actionlabels', os.path.join(d, 'g.dot')]
    res = kzv.tlc('MC_R', c, workers=1, timeout=900, extra_files={'MC_R.tla': mc}, args=args, workdir=d, heap='2g')
    out = {'cfg': cfg, 'res': res, 'scen': None, 'nscen': 0, 'edges': 0, 'steps': 0}
    if res.ok and dump:
        sp = os.path.join(d, 'scen.ndjson')
        mcfg = {k: cfg[k] for k in ('Jobs', 'B', 'Kinds', 'LastSz', 'HintBlocks', 'From', 'To')}
        with open(sp, 'w') as fh:
            n, ne, nn, steps = kzscen.export_scenarios(os.path.join(d, 'g.dot'), project, mcfg, fh, 'r%d' % idx,
                                                       rng=random.Random(rng_seed + idx), max_paths=max_paths)
        out.update(scen=sp, nscen=n, edges=ne, steps=steps)
        try:
            os.remove(os.path.join(d, 'g.dot'))
        except OSError:
            pass
    return out


def run_models(ck, cfgs, dump=True, liveness_cfgs=(), max_paths=None, par=None):
    """Model-check every config (exit 2 if the design spec fails), export replay scenarios.
    Returns the list of scenario files."""
    par = par or max(2, kzv.NCPU - 2)
    jobs = [(i, c, dump, False) for i, c in enumerate(cfgs)] + [(1000 + i, c, False, True) for i, c in enumerate(liveness_cfgs)]
    outs = []
    with ThreadPoolExecutor(max_workers=par) as ex:
        futs = [ex.submit(model_one, i, c, d, lv, ck.seed * 7919, max_paths) for (i, c, d, lv) in jobs]
        for f in futs:
            outs.append(f.result())
    scen_files = []
    for o in outs:
        res = o['res']
        ck.add_tlc(res, label=json.dumps(o['cfg'], sort_keys=True))
        if not res.ok:
            raise kzv.ToolFailure('KzReader design spec fails its own check (%s) for %s\n%s' % (
                res.violated or res.error, json.dumps(o['cfg']), res.out[-2500:]))
        if o['scen']:
            scen_files.append(o['scen'])
            ck.cov['model_edges'] = ck.cov.get('model_edges', 0) + o['edges']
    return scen_files


def selftest_asis(ck, cfg):
    """The invariants must be able to fail: the as-found design (Impl = asis) violates them."""
    mc, c = mk(cfg, impl='asis')
    res = kzv.tlc('MC_R', c, workers=1, timeout=300, extra_files={'MC_R.tla': mc}, heap='1g')
    ck.cov['selftest_asis'] = {'violated': res.violated, 'states': res.distinct}
    if res.dir:
        shutil.rmtree(res.dir, ignore_errors=True)
    if not res.violated:
        raise kzv.ToolFailure('vacuity self-test: the as-is reader design passes all invariants for ' + json.dumps(cfg))


def replay(ck, scen_files, pid_preds, realB=1024):
    """Replay scenario files on the real code. pid_preds: set of predicate names that are violations of
    this property (others found are still reported as violations of the reader family)."""
    kzh = kzv.build_harness()
    allscen = os.path.join(kzv.BUILD, 'tlc', 'scen_%s_%d.ndjson' % (ck.pid, os.getpid()))
    with open(allscen, 'w') as out:
        for f in scen_files:
            with open(f) as fh:
                shutil.copyfileobj(fh, out)
    resf = allscen + '.res'
    rc, so, se, dt = kzv.run([kzh, 'replay-reader', allscen, resf, str(realB), str(ck.seed)], timeout=3000)
    if rc != 0:
        raise kzv.ToolFailure('replay-reader failed: ' + se[-2000:])
    results = kzv.read_ndjson(resf)
    scen = {}
    n = len(results)
    drift = [r for r in results if r['status'] in ('drift', 'inconclusive')]
    viol = [r for r in results if r['status'] == 'violation']
    ck.cov['evaluations'] += n
    ck.cov['traces_validated_against_impl'] += n
    ck.cov['replay'] = {'scenarios': n, 'match': n - len(drift) - len(viol), 'drift': len(drift), 'violations': len(viol),
                        'task_steps': sum(r.get('taskOps', 0) for r in results), 'steps': sum(r.get('steps', 0) for r in results),
                        'wall_s': round(dt, 2)}
    ck.cov['distinct_nontrivial'] += len([r for r in results if r.get('taskOps', 0) >= 2])
    if viol:
        # load scenarios for the replay files
        want = set(r['sid'] for r in viol[:10])
        with open(allscen) as fh:
            for line in fh:
                s = json.loads(line)
                if s['sid'] in want:
                    scen[s['sid']] = s
        for r in viol[:10]:
            ck.violation({'kind': 'replay', 'pred': r.get('pred'), 'detail': r.get('detail'), 'sid': r['sid']},
                         {'cmd': 'replay-reader', 'scenario': scen.get(r['sid']), 'result': r, 'realB': realB}, name='replay')
    if results:
        ck.sample({'replay_scenario': results[0]['sid'], 'status': results[0]['status'], 'steps': results[0]['steps']})
    if n and len(drift) > max(2, 0.05 * n) and not viol:
        ck.deferred.append('model drift: %d of %d replays could not follow the model, e.g. %s' % (
            len(drift), n, json.dumps({k: v for k, v in drift[0].items() if k != 'events'})))
    if drift:
        ck.notes.append('%d replay(s) inconclusive: %s' % (len(drift), drift[0].get('detail')))
    for f in (allscen, resf):
        try:
            os.remove(f)
        except OSError:
            pass
    return results


def record(ck, mode, n, thorough=False, extra=None):
    """Run a record-mode driver and validate its trace with Trace_Reader."""
    kzh = kzv.build_harness()
    base = os.path.join(kzv.BUILD, 'tlc', 'rec_%s_%s_%d' % (ck.pid, mode, os.getpid()))
    tracef, sumf = base + '.ndjson', base + '.sum.json'
    cmd = [kzh, 'rec-reader', '-mode', mode, '-n', str(n), '-seed', str(ck.seed), '-out', tracef, '-sum', sumf, '-par', str(kzv.NCPU)]
    if thorough:
        cmd.append('-thorough')
    cmd += extra or []
    rc, so, se, dt = kzv.run(cmd, timeout=3000)
    if rc != 0:
        raise kzv.ToolFailure('rec-reader %s failed: %s' % (mode, se[-2000:]))
    summ = json.load(open(sumf))
    viols, stats = kzv.validate_runs('Trace_Reader', tracef)
    ck.cov['evaluations'] += summ['runs']
    ck.cov['distinct_nontrivial'] += summ['distinct']
    ck.cov['traces_validated_against_impl'] += summ['runs']
    ck.cov.setdefault('record', []).append({'mode': mode, 'runs': summ['runs'], 'skipped': summ['skipped'],
                                            'events': summ['events'], 'trace_states': stats['distinct'],
                                            'driver_wall_s': round(dt, 2), 'tlc_wall_s': round(stats['wall'], 2)})
    for s in summ.get('samples', [])[:2]:
        ck.sample({'record_run': s})
    for v in viols:
        desc = json.loads(v['run'].get('desc', '{}'))
        ck.violation({'kind': 'record', 'pred': v['bad'], 'mode': mode, 'transform': desc.get('w', {}).get('transform'),
                      'entropy': desc.get('w', {}).get('entropy'), 'mut': desc.get('mut'), 'event': v['event']},
                     {'cmd': 'rec-reader', 'mode': mode, 'run': desc, 'violated': v['bad'], 'trace_window': v['window']}, name='record')
    for f in (tracef, sumf):
        try:
            os.remove(f)
        except OSError:
            pass
    return summ, viols
