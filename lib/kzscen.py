"""Turn TLC state graphs (dot dumps) into replay scenarios."""
import json, os, re, random
import kzv


def parse_label(lbl):
    m = re.match(r'^(\w+)(?:\((.*)\))?$', lbl.strip())
    if not m:
        return lbl, []
    args = []
    if m.group(2):
        for a in m.group(2).split(','):
            a = a.strip()
            try:
                args.append(int(a))
            except ValueError:
                args.append(a.strip('"'))
    return m.group(1), args


def export_scenarios(dot_path, project, cfg, out_fh, sid_prefix, rng=None, max_len=400, max_paths=None):
    """Write one scenario per path of an edge cover. `project(state_dict)` maps a parsed state to the
    projection handed to the replayer. Returns (n_paths, n_edges, n_nodes, total_steps)."""
    nodes, edges, inits = kzv.parse_dot(dot_path)
    cache = {}

    def proj(nid):
        if nid not in cache:
            cache[nid] = project(kzv.parse_state(nodes[nid]))
        return cache[nid]

    paths = kzv.edge_cover_paths(nodes, edges, inits, max_len=max_len, rng=rng, max_paths=max_paths)
    total = 0
    for pi, path in enumerate(paths):
        steps, exp = [], []
        for k in path:
            a, b, lbl = edges[k]
            name, args = parse_label(lbl)
            steps.append({'a': name, 'x': args})
            exp.append(proj(b))
        sc = {'sid': '%s.%d' % (sid_prefix, pi), 'cfg': cfg, 'init': proj(inits[0]), 'steps': steps, 'exp': exp}
        out_fh.write(json.dumps(sc) + '\n')
        total += len(steps)
    return len(paths), len(edges), len(nodes), total
