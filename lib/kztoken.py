"""KzToken: the block hand-off protocol in isolation (any N). TLC on small N (incl. liveness and the as-found `store` variant as
self-test), TLAPS proofs of the safety clauses for every N (KzTokenProofs), and TLC refinement checks KzReader => KzToken,
KzWriter => KzToken on the configurations that are replayed on the real code."""
import os, re, shutil, subprocess, time
from concurrent.futures import ThreadPoolExecutor
import kzv, kzreader, kzwriter


def token_models(ck, ns):
    for n in ns:
        c = ('CONSTANTS\n N = %d\n Impl = "cas"\nSPECIFICATION FairSpec\nINVARIANTS Inv Mutex Ordered FailureCancels\n'
             'PROPERTIES CancelSticks NoEnterAfterCancel AllFinish\n') % n
        res = kzv.tlc('KzToken', c, workers=4, timeout=1800, heap='3g')
        ck.add_tlc(res, 'KzToken N=%d cas (safety + liveness)' % n)
        if not res.ok:
            raise kzv.ToolFailure('KzToken fails its own check for N=%d: %s' % (n, res.out[-1500:]))
    c = 'CONSTANTS\n N = 3\n Impl = "store"\nSPECIFICATION Spec\nINVARIANTS Mutex Ordered\nPROPERTIES CancelSticks\n'
    res = kzv.tlc('KzToken', c, workers=2, timeout=600, heap='2g')
    ck.cov.setdefault('selftests', []).append({'cfg': 'KzToken store (as-found decoder, F3)', 'violated': res.violated})
    if res.dir:
        shutil.rmtree(res.dir, ignore_errors=True)
    if not res.violated:
        raise kzv.ToolFailure('vacuity self-test: KzToken with Publish by plain store keeps a cancellation')


def token_proofs(ck, timeout=900):
    """tlapm on KzTokenProofs.tla: Mutex, Ordered, FailureCancels, CancelSticks, NoEnterAfterCancel for every N >= 1."""
    d = kzv.scratch('tlapm')
    for f in ('KzToken.tla', 'KzTokenProofs.tla'):
        shutil.copy(os.path.join(kzv.SPECS, f), d)
    t0 = time.time()
    try:
        p = subprocess.run(['tlapm', '--threads', str(min(16, kzv.NCPU)), '--cleanfp', 'KzTokenProofs.tla'], cwd=d, stdout=subprocess.PIPE,
                           stderr=subprocess.STDOUT, timeout=timeout)
        out = p.stdout.decode('utf-8', 'replace')
    except (subprocess.TimeoutExpired, OSError) as ex:
        shutil.rmtree(d, ignore_errors=True)
        raise kzv.ToolFailure('tlapm did not finish: %s' % ex)
    shutil.rmtree(d, ignore_errors=True)
    m = re.search(r'All (\d+) obligations? proved', out)
    if not m:
        raise kzv.ToolFailure('tlapm did not prove KzTokenProofs: ' + out[-1500:])
    ck.cov['tlaps'] = {'module': 'KzTokenProofs', 'obligations_proved': int(m.group(1)), 'wall_s': round(time.time() - t0, 1),
                       'theorems': ['Invariance', 'Safety (Mutex, Ordered, FailureCancels)', 'Sticks (CancelSticks)', 'NoEnter (NoEnterAfterCancel)'],
                       'scope': 'every N >= 1 (ASSUME NPos), compare-and-swap variant'}


def refine_reader(cfg, impl='fixed'):
    mc, c = kzreader.mk(cfg, impl=impl)
    mc = mc.replace('MODULE MC_R', 'MODULE MC_TR').replace('EXTENDS KzReader', 'EXTENDS MC_TokenReader')
    c = c[:c.index('SPECIFICATION')] + 'SPECIFICATION HSpec\nINVARIANTS TokInv TokMutex TokOrdered\nPROPERTIES TokSpec\n'
    return 'MC_TR', mc, c


def refine_writer(cfg, impl='fixed'):
    mc, c = kzwriter.mk(cfg, impl=impl)
    mc = mc.replace('MODULE MC_W', 'MODULE MC_TW').replace('EXTENDS KzWriter', 'EXTENDS MC_TokenWriter')
    c = c[:c.index('SPECIFICATION')] + 'SPECIFICATION HSpec\nINVARIANTS TokInv\nPROPERTIES TokSpec\n'
    return 'MC_TW', mc, c


def token_refinement(ck, rcfgs, wcfgs, selftest_rcfg=None):
    jobs = [refine_reader(c) for c in rcfgs] + [refine_writer(c) for c in wcfgs]

    def one(j):
        mod, mc, c = j
        return kzv.tlc(mod, c, workers=1, timeout=1200, extra_files={mod + '.tla': mc}, heap='2g')
    with ThreadPoolExecutor(max_workers=max(2, kzv.NCPU - 2)) as ex:
        results = list(ex.map(one, jobs))
    n = 0
    for j, res in zip(jobs, results):
        ck.add_tlc(res, '%s refines KzToken' % ('KzReader' if j[0] == 'MC_TR' else 'KzWriter'))
        if not res.ok:
            raise kzv.ToolFailure('%s does not refine KzToken (%s): %s' % (j[0], res.violated or res.error, res.out[-1500:]))
        n += 1
    ck.cov['refinement_checks'] = n
    if selftest_rcfg is not None:
        mod, mc, c = refine_reader(selftest_rcfg, impl='asis')
        res = kzv.tlc(mod, c, workers=1, timeout=600, extra_files={mod + '.tla': mc}, heap='2g')
        ck.cov.setdefault('selftests', []).append({'cfg': 'KzReader asis maps to KzToken store: TokInv', 'violated': res.violated})
        if res.dir:
            shutil.rmtree(res.dir, ignore_errors=True)
        if not res.violated:
            raise kzv.ToolFailure('vacuity self-test: the as-found reader keeps the KzToken invariant')
