"""C19: the command line tool built from the working tree, driven on random trees; system calls observed with
strace are turned into events for specs/Trace_Cli.tla (every prefix of the log is a kill point)."""
import hashlib, json, os, random, re, shutil, signal, subprocess, time
import kzv


def sha(path):
    h = hashlib.sha256()
    with open(path, 'rb') as fh:
        while True:
            b = fh.read(1 << 20)
            if not b:
                break
            h.update(b)
    return h.hexdigest()[:16]


def tree_digest(root, suffix=None):
    out = {}
    for d, _, files in os.walk(root):
        for f in files:
            p = os.path.join(d, f)
            if os.path.islink(p):
                continue
            rel = os.path.relpath(p, root)
            out[rel] = sha(p)
    return out


WORDS = ('the quick brown fox jumps over the lazy dog kanzi block stream header checksum lossless compression entropy transform '
         'alpha beta gamma delta epsilon').split()


def gen_bytes(rnd, kind, n):
    if n == 0:
        return b''
    if kind == 'text':
        s = []
        size = 0
        while size < n:
            w = rnd.choice(WORDS)
            s.append(w)
            size += len(w) + 1
        return (' '.join(s)).encode()[:n]
    if kind == 'random':
        return bytes(rnd.getrandbits(8) for _ in range(n))
    if kind == 'dna':
        return bytes(rnd.choice(b'ACGT') for _ in range(n))
    if kind == 'runs':
        out = bytearray()
        while len(out) < n:
            out += bytes([rnd.randrange(4) * 60]) * rnd.randint(1, 200)
        return bytes(out[:n])
    if kind in ('rgb', 'pcm'):
        # raw samples: 24-bit RGB pixels (each channel a slow random walk: best predicted by the byte 3 back) / 16-bit stereo PCM
        step = 3 if kind == 'rgb' else 4
        c = [128] * step
        out = bytearray()
        while len(out) < n:
            for k in range(step):
                c[k] = (c[k] + rnd.randint(-3, 3)) & 255
                out.append(c[k])
        return bytes(out[:n])
    return bytes((i * 7) & 255 for i in range(n))


TREE_SHAPES = ['random', 'single_nested', 'single_top', 'deep_only', 'one_per_dir', 'two_same_name', 'empty_files', 'dotnames']


def make_tree(root, rnd, nfiles, max_size=120000, shape='random'):
    """shape: 'random' (files spread over a fixed set of directories) or one of the degenerate trees where the tool takes special
    paths: a single file below a sub-directory, a single file at the top, no file at the top level, one file per directory,
    two files of the same name in different directories, only empty files"""
    os.makedirs(root, exist_ok=True)
    dirs = ['', 'sub', 'sub/deep', 'other dir', '.hidden']
    sizes = [0, 1, 15, 16, 1000, 4096, 65536, 70001]
    fixed = None
    if shape == 'single_nested':
        nfiles, dirs = 1, [rnd.choice(['sub/deep', 'sub', 'other dir/x/y'])]
    elif shape == 'single_top':
        nfiles, dirs = 1, ['']
    elif shape == 'deep_only':
        dirs = ['sub/deep', 'sub/deep/er', 'other dir']
    elif shape == 'one_per_dir':
        dirs = None
    elif shape == 'two_same_name':
        nfiles, dirs, fixed = 2, None, 'same.dat'
    elif shape == 'empty_files':
        sizes, max_size = [0], 1
    elif shape == 'dotnames':
        # names that begin with dots (legal names, but they look like path elements to code that tests prefixes)
        dirs = ['', '', '..cache', 'sub', '...']
    for i in range(nfiles):
        d = rnd.choice(dirs) if dirs is not None else 'dir%d/s' % i
        os.makedirs(os.path.join(root, d), exist_ok=True)
        names = ['file%d.txt', 'data%d.bin', '.dot%d', 'with space %d', 'x%d.knz.txt', 'noext%d']
        if shape == 'dotnames':
            names = ['..notes%d.txt', '..%d', '...%d', 'notes%d.txt', '.%d.', '..notes%d.txt']
        name = fixed or (rnd.choice(names) % (i // 2 if shape == 'dotnames' else i))
        n = rnd.choice(sizes) if rnd.random() < 0.6 else rnd.randrange(max_size)
        with open(os.path.join(root, d, name), 'wb') as fh:
            fh.write(gen_bytes(rnd, rnd.choice(['text', 'random', 'dna', 'runs', 'ramp', 'rgb', 'pcm']), n))
    # an empty directory too
    os.makedirs(os.path.join(root, 'emptydir'), exist_ok=True)
    return tree_digest(root)


SYS_RE = re.compile(r'^(\d+)\s+(\w+)\((.*)$')


def parse_strace(path):
    """Yield (call, info) in log order. Handles '<unfinished ...>' / '<... resumed>' pairs by emitting the event when the
    call completes (writes) or starts (unlink: the earliest point at which the file may be gone)."""
    unfinished = {}
    events = []
    with open(path, errors='replace') as fh:
        for line in fh:
            line = line.rstrip('\n')
            m = re.match(r'^(\d+)\s+<\.\.\. (\w+) resumed>(.*)$', line)
            if m:
                pid, call, rest = m.groups()
                first = unfinished.pop((pid, call), None)
                if first is None:
                    continue
                full = first + rest
            else:
                m = SYS_RE.match(line)
                if not m:
                    continue
                pid, call, rest = m.groups()
                if '<unfinished ...>' in rest:
                    head = rest.replace('<unfinished ...>', '')
                    unfinished[(pid, call)] = head
                    if call in ('unlink', 'unlinkat', 'rename', 'renameat', 'renameat2'):
                        # the file may already be gone while the call is in progress
                        events.append((call, head, None))
                    continue
                full = rest
            rm = re.search(r'=\s+(-?\d+)', full[full.rfind(')'):] if ')' in full else full)
            ret = int(rm.group(1)) if rm else None
            events.append((call, full, ret))
    return events


def sys_events(logpath, pairs):
    """pairs: list of (src_abs, out_abs). Returns Trace_Cli SYS events."""
    role = {}
    for i, (s, o) in enumerate(pairs):
        role[os.path.realpath(s)] = ('src', i)
        role[os.path.realpath(o)] = ('out', i)
    evs = []
    for call, full, ret in parse_strace(logpath):
        if call == 'openat':
            m = re.search(r'"((?:[^"\\]|\\.)*)",\s*([A-Z_|0-9]+)', full)
            if not m or (ret is not None and ret < 0):
                continue
            p = os.path.realpath(m.group(1).encode().decode('unicode_escape'))
            flags = m.group(2)
            if p in role and ('O_WRONLY' in flags or 'O_RDWR' in flags or 'O_TRUNC' in flags):
                r, i = role[p]
                evs.append({'ev': 'SYS', 'call': 'openw', 'role': r, 'pair': i, 'n': 0, 'path': p, 'flags': flags})
        elif call in ('write', 'pwrite64'):
            m = re.match(r'\s*\d+<([^>]*)>', full)
            if not m or ret is None or ret <= 0:
                continue
            p = os.path.realpath(m.group(1))
            if p in role:
                r, i = role[p]
                evs.append({'ev': 'SYS', 'call': 'write', 'role': r, 'pair': i, 'n': ret, 'path': p, 'flags': ''})
        elif call in ('unlink', 'unlinkat'):
            m = re.search(r'"((?:[^"\\]|\\.)*)"', full)
            if not m or (ret is not None and ret < 0):
                continue
            p = os.path.realpath(m.group(1).encode().decode('unicode_escape'))
            if p in role:
                r, i = role[p]
                evs.append({'ev': 'SYS', 'call': 'unlink', 'role': r, 'pair': i, 'n': 0, 'path': p, 'flags': ''})
        elif call in ('rename', 'renameat', 'renameat2', 'truncate', 'ftruncate'):
            for mm in re.finditer(r'"((?:[^"\\]|\\.)*)"', full):
                p = os.path.realpath(mm.group(1).encode().decode('unicode_escape'))
                if p in role and role[p][0] == 'src':
                    evs.append({'ev': 'SYS', 'call': 'openw', 'role': 'src', 'pair': role[p][1], 'n': 0, 'path': p, 'flags': call})
    return evs


class Cli:
    def __init__(self, ck, root):
        self.ck = ck
        self.bin = kzv.build_cli()
        self.root = root
        self.events = []
        self.runs = 0
        self.nsys = 0
        os.makedirs(root, exist_ok=True)

    def run(self, args, strace=None, stdin=None, stdout=None, timeout=600, cwd=None):
        cmd = [self.bin] + args
        if strace:
            cmd = ['strace', '-f', '-y', '-s', '0', '-e', 'trace=openat,write,pwrite64,unlink,unlinkat,rename,renameat,renameat2,truncate,ftruncate',
                   '-o', strace] + cmd
        try:
            p = subprocess.run(cmd, stdin=stdin, stdout=stdout or subprocess.PIPE, stderr=subprocess.STDOUT, timeout=timeout, cwd=cwd)
        except subprocess.TimeoutExpired:
            return 124, 'timeout'
        out = p.stdout.decode('utf-8', 'replace') if p.stdout else ''
        return p.returncode, out

    def emit(self, e):
        self.events.append(e)

    # ---- scenarios --------------------------------------------------------------------------------
    def inplace_rm(self, rnd, k, opts, desc, shape='random'):
        """compress a tree in place with --rm, decompress it in place with --rm: the tree must come back"""
        t = os.path.join(self.root, 't%d' % k)
        snap = make_tree(t, rnd, rnd.randint(3, 9), max_size=60000 if any(x in ' '.join(opts) for x in ('-l 7', '-l 8', '-l 9', 'TPAQ', 'CM')) else 150000,
                         shape=shape)
        if shape != 'random':
            desc += ' tree=' + shape
        log1, log2 = t + '.c.strace', t + '.d.strace'
        pairs = [(os.path.join(t, r), os.path.join(t, r) + '.knz') for r in snap]
        rid = len(self.events)
        self.emit({'ev': 'RUN', 'id': rid, 'rm': True, 'force': False, 'mode': 'c', 'desc': desc})
        rc1, out1 = self.run(['-c', '-i', t, '--rm'] + opts, strace=log1)
        se = sys_events(log1, pairs)
        self.nsys += len(se)
        self.events += se
        for i, (s, o) in enumerate(pairs):
            self.emit({'ev': 'FINAL', 'pair': i, 'size': os.path.getsize(o) if os.path.exists(o) else -1})
        gone = all(not os.path.exists(s) for s, o in pairs)
        self.emit({'ev': 'RUN', 'id': rid + 1, 'rm': True, 'force': False, 'mode': 'd', 'desc': desc})
        pairs2 = [(o, s) for s, o in pairs]
        rc2, out2 = self.run(['-d', '-i', t, '--rm', '-j', str(rnd.choice([1, 2, 4]))], strace=log2)
        se = sys_events(log2, pairs2)
        self.nsys += len(se)
        self.events += se
        for i, (s, o) in enumerate(pairs2):
            self.emit({'ev': 'FINAL', 'pair': i, 'size': os.path.getsize(o) if os.path.exists(o) else -1})
        after = tree_digest(t)
        self.emit({'ev': 'TREE', 'exitc': rc1, 'exitd': rc2, 'equal': after == snap and gone, 'desc': desc + ' in-place --rm',
                   'detail': (out1[-300:] if rc1 else '') + (out2[-300:] if rc2 else '')})
        self.runs += 2
        for f in (log1, log2):
            if os.path.exists(f):
                os.remove(f)

    def to_dir(self, rnd, k, opts, desc, force=True, shape='random'):
        """compress a tree into another directory, decompress into a third one; inputs must stay untouched"""
        t = os.path.join(self.root, 'd%d' % k)
        snap = make_tree(t, rnd, rnd.randint(3, 8), shape=shape)
        if shape != 'random':
            desc += ' tree=' + shape
        o1, o2 = t + '.out', t + '.back'
        os.makedirs(o1, exist_ok=True)      # the tool requires an existing output directory
        os.makedirs(o2, exist_ok=True)
        log1 = t + '.c.strace'
        f = ['-f'] if force else []
        pairs = [(os.path.join(t, r), os.path.join(o1, r) + '.knz') for r in snap]
        self.emit({'ev': 'RUN', 'id': len(self.events), 'rm': False, 'force': force, 'mode': 'c', 'desc': desc})
        rc1, out1 = self.run(['-c', '-i', t, '-o', o1] + f + opts, strace=log1)
        se = sys_events(log1, pairs)
        self.nsys += len(se)
        self.events += se
        self.emit({'ev': 'INPUTS', 'same': tree_digest(t) == snap, 'desc': desc})
        rc2, out2 = self.run(['-d', '-i', o1, '-o', o2] + f)
        back = tree_digest(o2) if os.path.isdir(o2) else {}
        self.emit({'ev': 'TREE', 'exitc': rc1, 'exitd': rc2, 'equal': back == snap, 'desc': desc + ' -o dir' + (' -f' if force else ''),
                   'detail': (out1[-300:] if rc1 else '') + (out2[-300:] if rc2 else '')})
        self.runs += 2
        if os.path.exists(log1):
            os.remove(log1)

    def path_forms(self, rnd, k, opts, desc, shape=None):
        """the same tree named in the ways a shell user names a directory (./dir, dir/, dir//, a/./dir, dir/../dir, absolute, '.'):
        the round trip into other directories must restore every file under its own relative path"""
        base = os.path.join(self.root, 'p%d' % k)
        t = os.path.join(base, 'top', 'src')
        snap = make_tree(t, rnd, rnd.randint(2, 5), max_size=30000, shape=shape or rnd.choice(['random', 'deep_only', 'single_nested']))
        forms = [('./top/src', base), ('top/src/', base), ('top//src', base), ('top/./src', base), ('top/src/../src', base), (t, None), ('.', t),
                 ('./', t), ('../src', t), ('src', os.path.join(base, 'top'))]
        for fi, (form, cwd) in enumerate(forms):
            o1, o2 = os.path.join(base, 'o1_%d' % fi), os.path.join(base, 'o2_%d' % fi)
            os.makedirs(o1)
            os.makedirs(o2)
            rc1, out1 = self.run(['-c', '-i', form, '-o', o1, '-f'] + opts, cwd=cwd)
            # the compressed tree is named in a non-canonical way too
            dform, dcwd = [('./' + os.path.basename(o1), base), (o1 + '/', None), (o1, None), ('.', o1)][fi % 4]
            rc2, out2 = self.run(['-d', '-i', dform, '-o', o2, '-f', '-v', '0'], cwd=dcwd)
            back = tree_digest(o2)
            self.emit({'ev': 'INPUTS', 'same': tree_digest(t) == snap, 'desc': desc})
            self.emit({'ev': 'TREE', 'exitc': rc1, 'exitd': rc2, 'equal': back == snap, 'desc': '%s input named %r, compressed tree named %r' % (desc, form, dform),
                       'detail': (out1[-300:] if rc1 else '') + (out2[-300:] if rc2 else '') + ('' if back == snap else ' restored: %s' % sorted(back)[:6])})
            self.runs += 2

    def single_and_pipes(self, rnd, k, opts, desc):
        d = os.path.join(self.root, 's%d' % k)
        os.makedirs(d, exist_ok=True)
        f = os.path.join(d, 'one.dat')
        data = gen_bytes(rnd, rnd.choice(['text', 'random', 'runs']), rnd.choice([0, 1, 5000, 200000]))
        open(f, 'wb').write(data)
        want = sha(f)
        rc1, o1 = self.run(['-c', '-i', f, '-o', f + '.knz'] + opts)
        rc2, o2 = self.run(['-d', '-i', f + '.knz', '-o', f + '.back'])
        ok = os.path.exists(f + '.back') and sha(f + '.back') == want
        self.emit({'ev': 'TREE', 'exitc': rc1, 'exitd': rc2, 'equal': ok, 'desc': desc + ' single file', 'detail': (o1[-200:] if rc1 else '') + (o2[-200:] if rc2 else '')})
        self.emit({'ev': 'INPUTS', 'same': sha(f) == want, 'desc': desc})
        # stdin -> stdout
        with open(f, 'rb') as fi, open(f + '.pipe.knz', 'wb') as fo:
            rc3, _ = self.run(['-c'] + opts, stdin=fi, stdout=fo)
        with open(f + '.pipe.knz', 'rb') as fi, open(f + '.pipe.back', 'wb') as fo:
            rc4, _ = self.run(['-d'], stdin=fi, stdout=fo)
        self.emit({'ev': 'TREE', 'exitc': rc3, 'exitd': rc4, 'equal': sha(f + '.pipe.back') == want, 'desc': desc + ' stdin/stdout', 'detail': ''})
        self.runs += 4

    def big_files(self, rnd, k, opts, desc, sizes):
        """a tree with files larger than the usual block sizes (several blocks per file, blocks of 8..16 MiB at the high levels)"""
        t = os.path.join(self.root, 'b%d' % k)
        os.makedirs(os.path.join(t, 'sub'), exist_ok=True)
        for i, n in enumerate(sizes):
            with open(os.path.join(t, ['', 'sub'][i % 2], 'big%d.dat' % i), 'wb') as fh:
                chunk = gen_bytes(rnd, ['text', 'runs', 'dna'][i % 3], 1 << 20)
                for off in range(0, n, len(chunk)):
                    fh.write(chunk[:min(len(chunk), n - off)])
                    chunk = chunk[7:] + chunk[:7]
        open(os.path.join(t, 'small.txt'), 'wb').write(b'small file\n')
        snap = tree_digest(t)
        o1, o2 = t + '.out', t + '.back'
        os.makedirs(o1)
        os.makedirs(o2)
        rc1, out1 = self.run(['-c', '-i', t, '-o', o1, '-f'] + opts, timeout=1200)
        rc2, out2 = self.run(['-d', '-i', o1, '-o', o2, '-f', '-j', str(rnd.choice([1, 4]))], timeout=1200)
        back = tree_digest(o2)
        self.emit({'ev': 'INPUTS', 'same': tree_digest(t) == snap, 'desc': desc})
        self.emit({'ev': 'TREE', 'exitc': rc1, 'exitd': rc2, 'equal': back == snap, 'desc': desc + ' big files %s' % (sizes,),
                   'detail': (out1[-300:] if rc1 else '') + (out2[-300:] if rc2 else '')})
        self.runs += 2
        for d in (o1, o2, t):
            shutil.rmtree(d, ignore_errors=True)

    def stdout_rm(self, rnd, k, opts, desc):
        """single file compressed to stdout with --rm (stdout redirected to a file): the source may only disappear
        once everything has been written to stdout; then the way back through stdin"""
        d = os.path.join(self.root, 'p%d' % k)
        os.makedirs(d, exist_ok=True)
        f = os.path.join(d, 'src.dat')
        data = gen_bytes(rnd, rnd.choice(['text', 'runs', 'dna']), rnd.choice([1, 5000, 300000, 1200000]))
        open(f, 'wb').write(data)
        want = sha(f)
        outp = os.path.join(d, 'captured.knz')
        log = os.path.join(d, 'strace.log')
        self.emit({'ev': 'RUN', 'id': len(self.events), 'rm': True, 'force': False, 'mode': 'c', 'desc': desc + ' -o stdout --rm'})
        with open(outp, 'wb') as fo:
            rc1, _ = self.run(['-c', '-i', f, '-o', 'stdout', '--rm'] + opts, strace=log, stdout=fo)
        se = sys_events(log, [(f, outp)])
        self.nsys += len(se)
        self.events += se
        self.emit({'ev': 'FINAL', 'pair': 0, 'size': os.path.getsize(outp)})
        back = os.path.join(d, 'back.dat')
        self.emit({'ev': 'RUN', 'id': len(self.events), 'rm': True, 'force': False, 'mode': 'd', 'desc': desc + ' -d -o stdout --rm'})
        with open(back, 'wb') as fo:
            rc2, _ = self.run(['-d', '-i', outp, '-o', 'stdout', '--rm'], strace=log, stdout=fo)
        se = sys_events(log, [(outp, back)])
        self.nsys += len(se)
        self.events += se
        self.emit({'ev': 'FINAL', 'pair': 0, 'size': os.path.getsize(back)})
        self.emit({'ev': 'TREE', 'exitc': rc1, 'exitd': rc2, 'equal': sha(back) == want and not os.path.exists(f) and not os.path.exists(outp),
                   'desc': desc + ' -o stdout --rm', 'detail': ''})
        self.runs += 2
        if os.path.exists(log):
            os.remove(log)

    def safety(self, rnd, k, opts):
        d = os.path.join(self.root, 'c%d' % k)
        os.makedirs(d, exist_ok=True)
        f = os.path.join(d, 'in.txt')
        open(f, 'wb').write(gen_bytes(rnd, 'text', 30000))
        # an existing output, no -f
        pre = os.path.join(d, 'in.txt.knz')
        open(pre, 'wb').write(b'precious content that must survive')
        before = sha(pre)
        rc, out = self.run(['-c', '-i', f] + opts)
        self.emit({'ev': 'CLOBBER', 'exit': rc, 'same': sha(pre) == before, 'desc': 'compress onto an existing file without -f'})
        # decompression onto an existing file, no -f
        g = os.path.join(d, 'arch.knz')
        self.run(['-c', '-i', f, '-o', g, '-f'] + opts)
        tgt = os.path.join(d, 'arch')
        open(tgt, 'wb').write(b'do not touch')
        before = sha(tgt)
        rc, out = self.run(['-d', '-i', g])
        self.emit({'ev': 'CLOBBER', 'exit': rc, 'same': sha(tgt) == before, 'desc': 'decompress onto an existing file without -f'})
        # the output designates the input, with -f, directly and through a symbolic link
        before = sha(f)
        rc, out = self.run(['-c', '-i', f, '-o', f, '-f'] + opts)
        self.emit({'ev': 'SELFIN', 'exit': rc, 'same': sha(f) == before, 'desc': 'output = input with -f'})
        link = os.path.join(d, 'link.knz')
        if not os.path.lexists(link):
            os.symlink(f, link)
        rc, out = self.run(['-c', '-i', f, '-o', link, '-f'] + opts)
        self.emit({'ev': 'SELFIN', 'exit': rc, 'same': sha(f) == before, 'desc': 'output is a symbolic link to the input, with -f'})
        self.runs += 5

    def kill(self, rnd, k, opts, desc):
        """real SIGKILL at a random moment of a --rm run: each source exists intact or its output decodes to it"""
        t = os.path.join(self.root, 'k%d' % k)
        snap = make_tree(t, rnd, rnd.randint(6, 14), max_size=400000)
        p = subprocess.Popen([self.bin, '-c', '-i', t, '--rm', '-j', str(rnd.choice([1, 2, 4]))] + opts, stdout=subprocess.DEVNULL, stderr=subprocess.DEVNULL)
        time.sleep(rnd.random() * rnd.choice([0.01, 0.05, 0.15, 0.4]))
        p.send_signal(signal.SIGKILL)
        p.wait()
        ok = True
        detail = ''
        for rel, dig in snap.items():
            s = os.path.join(t, rel)
            if os.path.exists(s):
                if sha(s) != dig:
                    ok, detail = False, rel + ': source modified'
                    break
                continue
            o = s + '.knz'
            back = o + '.check'
            rc, out = self.run(['-d', '-i', o, '-o', back, '-f']) if os.path.exists(o) else (1, 'no output')
            if rc != 0 or not os.path.exists(back) or sha(back) != dig:
                ok, detail = False, rel + ': source removed but output does not decode to it (%s)' % out[-120:]
                break
        self.emit({'ev': 'KILL', 'ok': ok, 'desc': desc, 'detail': detail})
        self.runs += 1


def level_opts(rnd):
    k = rnd.randrange(3)
    if k == 0:
        return ['-l', str(rnd.randrange(10))]
    if k == 1:
        t = rnd.choice(['NONE', 'LZ', 'LZX', 'TEXT+LZ', 'BWT+RANK+ZRLT', 'RLT', 'TEXT+UTF+PACK', 'ROLZ', 'BWTS', 'LZP+MTFT', 'EXE+MM+PACK'])
        e = rnd.choice(['NONE', 'HUFFMAN', 'ANS0', 'ANS1', 'RANGE', 'FPAQ'])
        return ['-t', t, '-e', e]
    return ['-l', str(rnd.randrange(7)), '-b', rnd.choice(['1k', '64k', '1m', '4m'])]


def extra_opts(rnd):
    o = ['-j', str(rnd.choice([1, 2, 3, 4, 8])), '-v', '0']
    if rnd.random() < 0.4:
        o.append(rnd.choice(['-x', '-x32', '-x64']))
    if rnd.random() < 0.15:
        o.append('-s')
    return o
