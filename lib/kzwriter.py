"""Writer-side machinery shared by C01, C04, C06, C07, C08, C17: KzWriter model checking, replay of the
state-graph edge cover on the real Writer (gates, sink faults, codec faults), record-mode drivers."""
import json, os, random, shutil
from concurrent.futures import ThreadPoolExecutor
import kzv, kzscen

INVS = 'TypeOK W_CloseOK W_Partition W_NoPanic W_Mutex W_TokenOrder W_FailureReported W_ClosedRefuses W_Ownership'


def tla_set(xs):
    return '{' + ', '.join(str(x) for x in sorted(xs)) + '}'


def wcfg(jobs, L, lens=(1, 3), hint=0, flush='close', fail_blocks=(), fail_local=(), close_fails=0, sink_fails=0, B=2, post=2):
    return {'Jobs': jobs, 'B': B, 'Hint': hint, 'L': L, 'WriteLens': list(lens), 'FlushMode': flush,
            'FailBlocks': list(fail_blocks), 'FailLocal': list(fail_local), 'CloseFlushFails': close_fails,
            'SinkCloseFails': sink_fails, 'MaxPost': post}


def mk(cfg, impl='fixed', liveness=False):
    mc = '---- MODULE MC_W ----\nEXTENDS KzWriter\nMCWriteLens == %s\nMCFailBlocks == %s\nMCFailLocal == %s\n====\n' % (
        tla_set(cfg['WriteLens']), tla_set(cfg['FailBlocks']), tla_set(cfg['FailLocal']))
    c = ('CONSTANTS\n Jobs = %d\n B = %d\n Hint = %d\n L = %d\n WriteLens <- MCWriteLens\n FlushMode = "%s"\n FailBlocks <- MCFailBlocks\n'
         ' FailLocal <- MCFailLocal\n CloseFlushFails = %d\n SinkCloseFails = %d\n Impl = "%s"\n MaxPost = %d\n') % (
        cfg['Jobs'], cfg['B'], cfg['Hint'], cfg['L'], cfg['FlushMode'], cfg['CloseFlushFails'], cfg['SinkCloseFails'], impl, cfg['MaxPost'])
    if liveness:
        c += 'SPECIFICATION FairSpec\nINVARIANTS %s\nPROPERTIES W_CancelSticks W_CallsReturn\n' % INVS
    else:
        c += 'SPECIFICATION Spec\nINVARIANTS %s\nPROPERTIES W_CancelSticks\n' % INVS
    return mc, c


def project(st):
    return {'counter': st['counter'], 'wpc': st['wpc'], 'ret': st['lastRet'],
            'et': {str(k): v['pc'] for k, v in st['et'].items()}, 'ids': {str(k): v['id'] for k, v in st['et'].items()},
            'batchFirst': st['batchFirst'], 'closeOK': st['closeOK'], 'accepted': len(st['accepted'])}


def model_one(idx, cfg, dump, liveness, rng_seed, max_paths):
    mc, c = mk(cfg, liveness=liveness)
    d = kzv.scratch('kzw%d' % idx)
    args = ['-dump', 'dot,actionlabels', os.path.join(d, 'g.dot')] if dump else []
    res = kzv.tlc('MC_W', c, workers=1, timeout=900, extra_files={'MC_W.tla': mc}, args=args, workdir=d, heap='2g')
    out = {'cfg': cfg, 'res': res, 'scen': None, 'nscen': 0, 'edges': 0, 'steps': 0}
    if res.ok and dump:
        sp = os.path.join(d, 'scen.ndjson')
        mcfg = {k: cfg[k] for k in ('Jobs', 'B', 'Hint', 'L', 'FlushMode', 'FailBlocks', 'FailLocal', 'CloseFlushFails', 'SinkCloseFails')}
        with open(sp, 'w') as fh:
            n, ne, nn, steps = kzscen.export_scenarios(os.path.join(d, 'g.dot'), project, mcfg, fh, 'w%d' % idx,
                                                       rng=random.Random(rng_seed + idx), max_paths=max_paths)
        out.update(scen=sp, nscen=n, edges=ne, steps=steps)
        try:
            os.remove(os.path.join(d, 'g.dot'))
        except OSError:
            pass
    return out


def run_models(ck, cfgs, dump=True, liveness_cfgs=(), max_paths=None, par=None):
    par = par or max(2, kzv.NCPU - 2)
    jobs = [(i, c, dump, False) for i, c in enumerate(cfgs)] + [(1000 + i, c, False, True) for i, c in enumerate(liveness_cfgs)]
    outs = []
    with ThreadPoolExecutor(max_workers=par) as ex:
        futs = [ex.submit(model_one, i, c, d, lv, ck.seed * 7919, max_paths) for (i, c, d, lv) in jobs]
        for f in futs:
            outs.append(f.result())
    scen_files = []
    for o in outs:
        res = o['res']
        ck.add_tlc(res, label=json.dumps(o['cfg'], sort_keys=True))
        if not res.ok:
            raise kzv.ToolFailure('KzWriter design spec fails its own check (%s) for %s\n%s' % (
                res.violated or res.error, json.dumps(o['cfg']), res.out[-2500:]))
        if o['scen']:
            scen_files.append(o['scen'])
            ck.cov['model_edges'] = ck.cov.get('model_edges', 0) + o['edges']
    return scen_files


def selftest_asis(ck, cfg):
    mc, c = mk(cfg, impl='asis')
    res = kzv.tlc('MC_W', c, workers=1, timeout=300, extra_files={'MC_W.tla': mc}, heap='1g')
    ck.cov.setdefault('selftest_asis_writer', []).append({'violated': res.violated, 'states': res.distinct})
    if res.dir:
        shutil.rmtree(res.dir, ignore_errors=True)
    if not res.violated:
        raise kzv.ToolFailure('vacuity self-test: the as-is writer design passes all invariants for ' + json.dumps(cfg))


def replay(ck, scen_files, realB=2048):
    kzh = kzv.build_harness()
    allscen = os.path.join(kzv.BUILD, 'tlc', 'wscen_%s_%d.ndjson' % (ck.pid, os.getpid()))
    with open(allscen, 'w') as out:
        for f in scen_files:
            with open(f) as fh:
                shutil.copyfileobj(fh, out)
    resf = allscen + '.res'
    rc, so, se, dt = kzv.run([kzh, 'replay-writer', allscen, resf, str(realB), str(ck.seed), '8'], timeout=3000)
    if rc != 0:
        raise kzv.ToolFailure('replay-writer failed: ' + se[-2000:])
    results = kzv.read_ndjson(resf)
    n = len(results)
    drift = [r for r in results if r['status'] in ('drift', 'inconclusive')]
    viol = [r for r in results if r['status'] == 'violation']
    ck.cov['evaluations'] += n
    ck.cov['traces_validated_against_impl'] += n
    ck.cov['replay_writer'] = {'scenarios': n, 'match': n - len(drift) - len(viol), 'drift': len(drift), 'violations': len(viol),
                               'task_steps': sum(r.get('taskOps', 0) for r in results), 'steps': sum(r.get('steps', 0) for r in results),
                               'wall_s': round(dt, 2)}
    ck.cov['distinct_nontrivial'] += len([r for r in results if r.get('taskOps', 0) >= 2])
    if viol:
        want = set(r['sid'] for r in viol[:10])
        scen = {}
        with open(allscen) as fh:
            for line in fh:
                s = json.loads(line)
                if s['sid'] in want:
                    scen[s['sid']] = s
        for r in viol[:10]:
            ck.violation({'kind': 'replay', 'pred': r.get('pred'), 'detail': r.get('detail'), 'sid': r['sid']},
                         {'cmd': 'replay-writer', 'scenario': scen.get(r['sid']), 'result': r, 'realB': realB}, name='wreplay')
    if results:
        ck.sample({'replay_scenario': results[0]['sid'], 'status': results[0]['status'], 'steps': results[0]['steps']})
    if n and len(drift) > max(2, 0.05 * n) and not viol:
        ck.deferred.append('model drift: %d of %d writer replays could not follow the model, e.g. %s' % (
            len(drift), n, json.dumps({k: v for k, v in drift[0].items() if k != 'events'})))
    if drift:
        ck.notes.append('%d writer replay(s) inconclusive: %s' % (len(drift), drift[0].get('detail')))
    for f in (allscen, resf):
        try:
            os.remove(f)
        except OSError:
            pass
    return results


def record(ck, mode, n, thorough=False, extra=None, timeout=3000):
    """Run a record-mode writer driver and validate its trace with Trace_Writer."""
    kzh = kzv.build_harness()
    base = os.path.join(kzv.BUILD, 'tlc', 'recw_%s_%s_%d' % (ck.pid, mode, os.getpid()))
    tracef, sumf = base + '.ndjson', base + '.sum.json'
    cmd = [kzh, 'rec-writer', '-mode', mode, '-n', str(n), '-seed', str(ck.seed), '-out', tracef, '-sum', sumf, '-par', str(kzv.NCPU)]
    if thorough:
        cmd.append('-thorough')
    cmd += extra or []
    rc, so, se, dt = kzv.run(cmd, timeout=timeout)
    if rc != 0:
        raise kzv.ToolFailure('rec-writer %s failed: %s' % (mode, se[-2000:]))
    summ = json.load(open(sumf))
    viols, stats = kzv.validate_runs('Trace_Writer', tracef)
    ck.cov['evaluations'] += summ['runs']
    ck.cov['distinct_nontrivial'] += summ['distinct']
    ck.cov['traces_validated_against_impl'] += summ['runs']
    ck.cov.setdefault('record', []).append({'mode': mode, 'runs': summ['runs'], 'events': summ['events'],
                                            'trace_states': stats['distinct'], 'driver_wall_s': round(dt, 2),
                                            'tlc_wall_s': round(stats['wall'], 2)})
    for s in summ.get('samples', [])[:2]:
        ck.sample({'record_run': s})
    for v in viols:
        if v['bad'].endswith('_after_retry') and ck.pid != 'C17':
            # lifecycle clause of C17 observed in a fault run of another property's driver: decided by C17 only
            ck.notes.append('C17 clause %s observed in mode %s (decided by the C17 check)' % (v['bad'], mode))
            continue
        desc = json.loads(v['run'].get('desc', '{}'))
        w = desc.get('w', {})
        ck.violation({'kind': 'record', 'pred': v['bad'], 'mode': mode, 'transform': w.get('transform'), 'entropy': w.get('entropy'),
                      'shape': desc.get('shape'), 'msg': (v['event'].get('msg') or v['event'].get('decmsg') or '')[:120]},
                     {'cmd': 'rerun-writer', 'mode': mode, 'run': desc, 'violated': v['bad'], 'trace_window': v['window']}, name='wrecord')
    for f in (tracef, sumf):
        try:
            os.remove(f)
        except OSError:
            pass
    return summ, viols
