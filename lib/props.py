"""Per-property checks. Each function fills a kzv.Check; see DESIGN.md section 5."""
import itertools, json, os, random
import kzv, kzreader

LEVEL = {}


def thorough(ck):
    return ck.tier == 'thorough'


def rcfg(jobs, kinds, last=1, lens=(1, 3), hint=0, fr=0, to=0, B=2, post=2):
    return {'Jobs': jobs, 'B': B, 'Kinds': list(kinds), 'LastSz': last, 'ReadLens': list(lens), 'HintBlocks': hint,
            'From': fr, 'To': to, 'MaxPost': post}


def clean(n):
    return ['ok'] * n + ['eos']


# ------------------------------------------------------------------------------------------------
LEVEL['C05'] = 'model_checking'


def C05(ck):
    T = thorough(ck)
    cfgs = []
    jobs_set = (1, 2, 3, 4) if T else (1, 2, 3)
    for jobs in jobs_set:
        for n in ((0, 1, 2, 3, 4, 5, 7) if T else (0, 1, 3, 5)):
            if jobs == 4 and n > 5:
                continue
            for last in (1, 2):
                if n == 0 and last == 2:
                    continue
                hints = {0, n} | ({1, 2} if T or jobs == 3 else set())
                for hint in sorted(hints):
                    cfgs.append(rcfg(jobs, clean(n), last=last, lens=(0, 1, 3, 5) if jobs < 4 else (1, 5), hint=hint))
    # the failure clause: a block fails in any position of a batch
    for jobs in jobs_set[1:]:
        for n in ((3, 4, 5) if T else (4,)):
            for pos in range(n):
                for kind in ('crc', 'fail'):
                    k = clean(n)
                    k[pos] = kind
                    cfgs.append(rcfg(jobs, k, lens=(1, 3) if jobs < 4 else (3,)))
    ck.cov['rule'] = ('KzReader exhaustively for each (jobs, wire, last block size, hint, Read lengths) config; every edge of each '
                      'state graph replayed on the real Reader through gates; record-mode runs over random codecs/jobs/Read lengths '
                      'judged by Trace_Reader. non-trivial = replay with >= 2 task steps, or record run with > 1 block')
    kzreader.selftest_asis(ck, rcfg(2, ['ok', 'ok', 'crc', 'ok', 'eos']))
    live = [rcfg(2, clean(3), lens=(3,)), rcfg(3, ['ok', 'crc', 'ok', 'ok', 'eos'], lens=(3,))]
    scen = kzreader.run_models(ck, cfgs, liveness_cfgs=live)
    kzreader.replay(ck, scen, {'R_Prefix', 'R_NothingAfterError'})
    kzreader.record(ck, 'c05', 1500 if T else 250, thorough=T)
    ck.assumptions += ['abstract bytes are scaled to real bytes by realB/B (all cursor arithmetic is homogeneous)',
                       'codec correctness on the generated data is C01/C12/C13 territory: runs whose reference decode fails are skipped']


# ------------------------------------------------------------------------------------------------
LEVEL['C02'] = 'model_checking'


def C02(ck):
    T = thorough(ck)
    cfgs = []
    for jobs in ((1, 2, 3, 4) if T else (1, 2, 3)):
        for n in ((2, 3, 4, 5) if T else (3, 4)):
            for pos in range(n):
                for kind in ('crc', 'fail'):
                    k = clean(n)
                    k[pos] = kind
                    cfgs.append(rcfg(jobs, k, lens=(1, 3, 5) if jobs < 4 else (3,), post=3))
            # two damaged blocks
            for p1, p2 in itertools.combinations(range(n), 2):
                if not T and (p2 - p1) > 2:
                    continue
                k = clean(n)
                k[p1], k[p2] = 'crc', 'crc'
                cfgs.append(rcfg(jobs, k, lens=(3,), post=3))
    ck.cov['rule'] = ('KzReader with damaged blocks (crc = decodes to garbage caught by the checksum, fail = codec error) in every position, '
                      'every edge replayed on the real Reader; record mode: checksummed real streams with bit flips / byte substitutions / '
                      'swaps inside block payloads (positions from the independent container parser), exhaustive byte substitution on small '
                      'streams, damage injected inside the pipeline before checksum verification; continued Reads after the first error; '
                      'judged by Trace_Reader (R_Prefix, R_NothingAfterError, R_EOFOnlyAtEnd)')
    kzreader.selftest_asis(ck, rcfg(2, ['ok', 'ok', 'crc', 'ok', 'eos']))
    scen = kzreader.run_models(ck, cfgs)
    kzreader.replay(ck, scen, {'R_Prefix', 'R_NothingAfterError', 'R_EOFOnlyAtEnd'})
    kzreader.record(ck, 'c02', 2000 if T else 300, thorough=T)
    kzreader.record(ck, 'c02x', 0, thorough=T)
    kzreader.record(ck, 'c02p', 0, thorough=T)
    ck.assumptions += ['a 32/64-bit checksum collision on a damaged block is not distinguished from a benign modification',
                       'modifications are confined to block payloads as located by harness/kzfmt (spec: KzFormat)']


# ------------------------------------------------------------------------------------------------
LEVEL['C09'] = 'model_checking'


def C09(ck):
    T = thorough(ck)
    cfgs = []
    for jobs in ((1, 2, 3, 4) if T else (1, 2, 3)):
        for n in ((0, 1, 2, 3, 4, 5, 6) if T else (0, 1, 2, 3, 5)):
            # a wire without end marker = cut at a block boundary / inside the next frame
            for last in (1, 2):
                cfgs.append(rcfg(jobs, ['ok'] * n, last=last, lens=(1, 3, 5) if jobs < 4 else (3,), hint=0))
            if n > 0:
                cfgs.append(rcfg(jobs, ['ok'] * n, lens=(3,), hint=n + 1))
                cfgs.append(rcfg(jobs, ['ok'] * n, lens=(3,), hint=1))
    ck.cov['rule'] = ('KzReader on wires without end marker (every number of complete blocks, jobs, hint, Read lengths): never a clean EOF; '
                      'every edge replayed on the real Reader with the real stream cut at the corresponding position; record mode: every cut '
                      'position 0..len-1 of small real streams (c09x) and random cuts of larger ones (c09), with and without checksum, '
                      'judged by Trace_Reader (R_EOFOnlyAtEnd, R_Prefix, R_NothingAfterError)')
    scen = kzreader.run_models(ck, cfgs)
    kzreader.replay(ck, scen, {'R_EOFOnlyAtEnd', 'R_Prefix'})
    kzreader.record(ck, 'c09x', 0, thorough=T)
    kzreader.record(ck, 'c09', 1500 if T else 250, thorough=T)
    ck.cov['exhaustive'] = False


# ------------------------------------------------------------------------------------------------
LEVEL['C11'] = 'model_checking'


def C11(ck):
    T = thorough(ck)
    cfgs = []
    for jobs in ((1, 2, 3, 4) if T else (1, 2, 3)):
        for n in ((2, 3, 5, 7) if T else (3, 5)):
            if jobs == 4 and n > 5:
                continue
            for fr in range(1, n + 3):
                for to in range(fr, n + 3):
                    if not T and jobs == 3 and (fr + to) % 2 == 1:
                        continue
                    cfgs.append(rcfg(jobs, clean(n), last=1, lens=(3,) if (T or jobs == 3) else (1, 5), fr=fr, to=to))
    ck.cov['rule'] = ('KzReader with every block range 1 <= from <= to <= blocks+2, jobs 1..3(4), every edge replayed on the real Reader; '
                      'record mode: every range of real streams of up to 12 blocks (c11x) and random ranges/codecs/jobs (c11); D_DEC hook '
                      'events prove skipped blocks are not decoded; judged by Trace_Reader')
    scen = kzreader.run_models(ck, cfgs)
    kzreader.replay(ck, scen, {'R_Prefix', 'R_EOFOnlyAtEnd'})
    kzreader.record(ck, 'c11x', 0, thorough=T)
    kzreader.record(ck, 'c11', 1500 if T else 250, thorough=T)


# ------------------------------------------------------------------------------------------------
import kzwriter
from kzwriter import wcfg

LEVEL['C04'] = 'model_checking'


def C04(ck):
    T = thorough(ck)
    cfgs = []
    for jobs in ((1, 2, 3, 4) if T else (1, 2, 3)):
        for L in ((0, 1, 4, 5, 7, 9) if T else (0, 3, 7)):
            if jobs == 4 and L > 7:
                continue
            nb = (L + 1) // 2
            hints = sorted({0, nb} | ({1, 2, nb + 2} if (T or jobs == 3) else {1}))
            for hint in hints:
                cfgs.append(wcfg(jobs, L, lens=(0, 1, 3, 5) if jobs < 4 else (3, 5), hint=hint))
    ck.cov['rule'] = ('KzWriter exhaustively for each (jobs, data length, hint, Write lengths): W_Partition/W_Mutex/W_TokenOrder in every '
                      'interleaving; every edge replayed on the real Writer through gates and the sink content compared frame by frame with '
                      'the data (independent parser); record mode: identical data+parameters through jobs {1,2,3,4,8,64} x Write partitions x '
                      'repeated runs x perturbed schedules must give byte-identical streams (Trace_Writer: Out events), over random transform '
                      'chains and all entropy codecs')
    kzwriter.selftest_asis(ck, wcfg(2, 6, hint=1))
    scen = kzwriter.run_models(ck, cfgs, liveness_cfgs=[wcfg(3, 7, lens=(3, 5))])
    kzwriter.replay(ck, scen)
    kzwriter.record(ck, 'c04', 120 if T else 14, thorough=T)
    ck.assumptions += ['E_Local (transform + entropy coding of one block) is treated as a function of the block: the record-mode digests test it']


LEVEL['C08'] = 'fault_enumeration'


def C08(ck):
    T = thorough(ck)
    cfgs = []
    for jobs in ((1, 2, 3) if T else (1, 2)):
        for L in ((3, 5, 7) if T else (5,)):
            nb = (L + 1) // 2
            # sink fault while block k is emitted (single, and pairs in thorough)
            for k in range(1, nb + 1):
                cfgs.append(wcfg(jobs, L, lens=(3, 5), flush='emit', fail_blocks=[k], post=3))
            if T:
                for k1, k2 in itertools.combinations(range(1, nb + 1), 2):
                    cfgs.append(wcfg(jobs, L, lens=(3,), flush='emit', fail_blocks=[k1, k2], post=3))
            # codec fault in block k
            for k in range(1, nb + 1):
                cfgs.append(wcfg(jobs, L, lens=(3, 5), flush='close', fail_local=[k], post=3))
            # faults of the final flush and of the Close of the sink, with retries
            for cf, sf in ((1, 0), (0, 1), (1, 1), (2, 0)) if T else ((1, 0), (0, 1), (1, 1)):
                cfgs.append(wcfg(jobs, L, lens=(3, 5), flush='close', close_fails=cf, sink_fails=sf, post=4))
    ck.cov['rule'] = ('KzWriter with a sink fault during the emit of every block, a codec fault in every block, failing final flush / sink '
                      'Close with retries: W_CloseOK, W_FailureReported, W_NoPanic; every edge replayed on the real Writer with the faults '
                      'placed by the model; record mode (fault_enumeration): fault-free run counts the sink calls, then one run per failing '
                      'call index k (once / forever / partial write) x caller reaction (close / retry close / keep writing), judged by '
                      'Trace_Writer (C08_swallowed_failure, W_CloseOK, C08_panic); source faults on the read side: KzBitIn in C06/C14')
    kzwriter.selftest_asis(ck, wcfg(2, 6, flush='emit', fail_blocks=[1]))
    scen = kzwriter.run_models(ck, cfgs)
    kzwriter.replay(ck, scen)
    kzwriter.record(ck, 'c08', 10 if T else 3, thorough=T)
    kzreader.record(ck, 'c08r', 600 if T else 150, thorough=T)
    ck.cov['exhaustive'] = False


LEVEL['C17'] = 'model_checking'


def C17(ck):
    T = thorough(ck)
    cfgs = []
    for jobs in ((1, 2, 3) if T else (1, 2)):
        for L in ((0, 2, 5, 7) if T else (0, 5)):
            cfgs.append(wcfg(jobs, L, lens=(0, 1, 2, 3, 5), post=4 if T else 3))
            cfgs.append(wcfg(jobs, L, lens=(0, 3), close_fails=1, post=3))
    rcfgs = []
    for jobs in (1, 2):
        for n in (0, 2, 3):
            rcfgs.append(rcfg(jobs, clean(n), lens=(0, 1, 3), post=4 if T else 3))
    ck.cov['rule'] = ('KzWriter / KzReader with the full call alphabet (Write/Read of lengths 0,1,B-1..,Close repeated, calls after Close) up to '
                      'MaxPost calls after the end: W_ClosedRefuses, R_ClosedRefuses, W_CloseOK; all edges replayed on the real objects; record '
                      'mode: random API programs over Write(len)/Close/GetWritten and Read/Close judged step by step by Trace_Writer / '
                      'Trace_Reader (idempotent Close, refusal after Close, full-length Write, monotone counters, GetWritten = sink size)')
    scen = kzwriter.run_models(ck, cfgs)
    kzwriter.replay(ck, scen)
    rscen = kzreader.run_models(ck, rcfgs)
    kzreader.replay(ck, rscen, set())
    kzwriter.record(ck, 'c17', 1500 if T else 300, thorough=T)
    kzreader.record(ck, 'c17r', 1500 if T else 300, thorough=T)


LEVEL['C01'] = 'model_checking'


def C01(ck):
    T = thorough(ck)
    wcfgs, rcfgs = [], []
    for jobs in ((1, 2, 3) if T else (1, 2, 3)):
        for L in ((0, 1, 2, 5, 7, 9) if T else (0, 1, 5, 7)):
            nb = (L + 1) // 2
            # hint classes: absent, exact, smaller by >= 1 block, larger, one block
            for hint in sorted({0, nb, max(nb - 1, 0), nb + 2, 1}):
                if not T and jobs == 3 and hint not in (0, 1, nb):
                    continue
                wcfgs.append(wcfg(jobs, L, lens=(1, 3, 5) if L > 1 else (0, 1), hint=hint))
    for jobs in (1, 2, 3):
        for n in ((0, 1, 2, 3, 5) if T else (0, 2, 5)):
            for last in (1, 2):
                if n == 0 and last == 2:
                    continue
                rcfgs.append(rcfg(jobs, clean(n), last=last, lens=(1, 3, 5), hint=n if last == 1 else 0))
    ck.cov['rule'] = ('stream layer: KzWriter (every Write partition x hint class x jobs: W_CloseOK, W_Partition) and KzReader on clean wires '
                      '(R_CompleteAtEOF) model-checked, all edges replayed on the real code; codec layer (explored, not decided): record-mode '
                      'round trips through NewWriterWithCtx/NewReaderWithCtx over the ten level presets, all single transforms, random chains '
                      'of 1..8 transforms x 9 entropy codecs x 19 data shapes x block sizes x jobs x checksum x hint classes x headerless x '
                      'Write partitions, judged by Trace_Writer (Close nil, decoded digest = accepted digest); configurations that the '
                      'constructor accepts must round-trip (c01cfg). non-trivial = distinct (chain, entropy, block, jobs, ck, hint, partition, shape)')
    kzwriter.selftest_asis(ck, wcfg(2, 6, hint=1))
    scen = kzwriter.run_models(ck, wcfgs)
    kzwriter.replay(ck, scen)
    rscen = kzreader.run_models(ck, rcfgs)
    kzreader.replay(ck, rscen, set())
    kzwriter.record(ck, 'c01', 6000 if T else 700, thorough=T, timeout=7000)
    kzwriter.record(ck, 'c01cfg', 1500 if T else 300, thorough=T)
    ck.assumptions += ['the codec layer is explored on generated data shapes, not decided for all inputs',
                       'decoding uses the real Reader (the round trip is the property)']


LEVEL['C07'] = 'model_checking'


def C07(ck):
    T = thorough(ck)
    wcfgs, rcfgs, wlive, rlive = [], [], [], []
    # writer: N tasks, a failure at every step kind of every task: local (before the wait), emit (holding the stream)
    for jobs in ((2, 3, 4) if T else (2, 3)):
        L = 2 * jobs + 1
        lens = (L,) if jobs == 4 else (3, L)
        wcfgs.append(wcfg(jobs, L, lens=lens))
        for k in range(1, jobs + 2):
            wcfgs.append(wcfg(jobs, L, lens=lens, flush='emit', fail_blocks=[k]))
            wcfgs.append(wcfg(jobs, L, lens=lens, flush='close', fail_local=[k]))
        wlive.append(wcfg(jobs, L, lens=(L,), flush='emit', fail_blocks=[2]))
        wlive.append(wcfg(jobs, L, lens=(L,), fail_local=[1]))
    # reader: N tasks, failure (crc after publishing, fail, truncation while holding the stream), end of stream, skipped blocks
    for jobs in ((2, 3, 4) if T else (2, 3)):
        n = jobs + 1
        lens = (2 * n,) if jobs == 4 else (3, 2 * n)
        rcfgs.append(rcfg(jobs, clean(n), lens=lens))
        for pos in range(n):
            for kind in ('crc', 'fail'):
                k = clean(n)
                k[pos] = kind
                rcfgs.append(rcfg(jobs, k, lens=lens))
            rcfgs.append(rcfg(jobs, ['ok'] * pos, lens=lens))          # truncated after pos blocks
        rcfgs.append(rcfg(jobs, clean(n), lens=lens, fr=2, to=3))
        rcfgs.append(rcfg(jobs, clean(n), lens=lens, fr=n + 1, to=n + 2))  # every batch entirely skipped
        rlive.append(rcfg(jobs, ['ok', 'crc'] + ['ok'] * (n - 2) + ['eos'], lens=(2 * n,)))
        rlive.append(rcfg(jobs, ['ok'] * 2, lens=(2 * n,)))
    ck.cov['rule'] = ('protocol configs of KzWriter/KzReader: N = 2..3 (4 in thorough) concurrent tasks x a failure in every block position and '
                      'of every kind (codec error before the wait, sink/source failure while holding the stream, checksum error after '
                      'publishing), end of stream, skipped batches: Mutex, TokenOrder, CancelSticks, FailureReported, deadlock freedom, and '
                      'liveness (every call returns, every task finishes) under weak fairness; every edge of every graph replayed on the '
                      'real code through the gate hooks with the faults injected at the same steps; free-running executions (jobs up to 64) '
                      'checked for exclusive, ordered, always-terminating hand-off by Trace_Reader/Trace_Writer interval predicates')
    scen = kzwriter.run_models(ck, wcfgs, liveness_cfgs=wlive)
    kzwriter.replay(ck, scen)
    rscen = kzreader.run_models(ck, rcfgs, liveness_cfgs=rlive)
    kzreader.replay(ck, rscen, set())
    kzreader.record(ck, 'c05', 1200 if T else 200, thorough=T)
    kzreader.record(ck, 'c02', 1200 if T else 200, thorough=T)
    kzwriter.record(ck, 'c07w', 1500 if T else 250, thorough=T)


LEVEL['C06'] = 'model_checking'


def C06(ck):
    T = thorough(ck)
    wcfgs, rcfgs = [], []
    for jobs in (1, 2, 3):
        for L in ((5, 7) if T else (7,)):
            wcfgs.append(wcfg(jobs, L, lens=(0, 1, 2, 3, 4, 5), hint=0))
        for n in ((3, 5) if T else (4,)):
            for last in (1, 2):
                rcfgs.append(rcfg(jobs, clean(n), last=last, lens=(0, 1, 2, 3, 4, 5)))
    ck.cov['rule'] = ('KzWriter/KzReader with every mix of Write/Read buffer lengths 0..5 (block = 2): W_Partition and R_Prefix are independent '
                      'of the call partition (model-checked, replayed); KzBitIn (input bitstream over a source delivering arbitrary chunk '
                      'sizes) model-checked in C14; record mode: real streams over all codec pairs decoded through sources delivering '
                      '1, 7, 8, 9, 13/5/64, 1..7, random, 4095+1 bytes per call with random Read buffer sizes (incl. 0) and compressed '
                      'through random Write partitions: digests equal the plain run (Trace_Reader / Trace_Writer)')
    scen = kzwriter.run_models(ck, wcfgs)
    kzwriter.replay(ck, scen)
    rscen = kzreader.run_models(ck, rcfgs)
    kzreader.replay(ck, rscen, set())
    kzreader.record(ck, 'c06', 2000 if T else 400, thorough=T)
    kzwriter.record(ck, 'c04', 60 if T else 8, thorough=T)
