"""Per-property checks. Each function fills a kzv.Check; see DESIGN.md section 5."""
import itertools, json, os, random
import kzv, kzreader

LEVEL = {}


def thorough(ck):
    return ck.tier == 'thorough'


def rcfg(jobs, kinds, last=1, lens=(1, 3), hint=0, fr=0, to=0, B=2, post=2):
    return {'Jobs': jobs, 'B': B, 'Kinds': list(kinds), 'LastSz': last, 'ReadLens': list(lens), 'HintBlocks': hint,
            'From': fr, 'To': to, 'MaxPost': post}


def clean(n):
    return ['ok'] * n + ['eos']


# ------------------------------------------------------------------------------------------------
LEVEL['C05'] = 'model_checking'


def C05(ck):
    T = thorough(ck)
    cfgs = []
    jobs_set = (1, 2, 3, 4) if T else (1, 2, 3)
    for jobs in jobs_set:
        for n in ((0, 1, 2, 3, 4, 5, 7) if T else (0, 1, 3, 5)):
            if jobs == 4 and n > 5:
                continue
            for last in (1, 2):
                if n == 0 and last == 2:
                    continue
                hints = {0, n} | ({1, 2} if T or jobs == 3 else set())
                for hint in sorted(hints):
                    cfgs.append(rcfg(jobs, clean(n), last=last, lens=(0, 1, 3, 5) if jobs < 4 else (1, 5), hint=hint))
    # the failure clause: a block fails in any position of a batch
    for jobs in jobs_set[1:]:
        for n in ((3, 4, 5) if T else (4,)):
            for pos in range(n):
                for kind in ('crc', 'fail'):
                    k = clean(n)
                    k[pos] = kind
                    cfgs.append(rcfg(jobs, k, lens=(1, 3) if jobs < 4 else (3,)))
    ck.cov['rule'] = ('KzReader exhaustively for each (jobs, wire, last block size, hint, Read lengths) config; every edge of each '
                      'state graph replayed on the real Reader through gates; record-mode runs over random codecs/jobs/Read lengths '
                      'judged by Trace_Reader. non-trivial = replay with >= 2 task steps, or record run with > 1 block')
    kzreader.selftest_asis(ck, rcfg(2, ['ok', 'ok', 'crc', 'ok', 'eos']))
    live = [rcfg(2, clean(3), lens=(3,)), rcfg(3, ['ok', 'crc', 'ok', 'ok', 'eos'], lens=(3,))]
    scen = kzreader.run_models(ck, cfgs, liveness_cfgs=live)
    kzreader.replay(ck, scen, {'R_Prefix', 'R_NothingAfterError'})
    kzreader.record(ck, 'c05', 1500 if T else 250, thorough=T)
    ck.assumptions += ['abstract bytes are scaled to real bytes by realB/B (all cursor arithmetic is homogeneous)',
                       'codec correctness on the generated data is C01/C12/C13 territory: runs whose reference decode fails are skipped']


# ------------------------------------------------------------------------------------------------
LEVEL['C02'] = 'model_checking'


def C02(ck):
    T = thorough(ck)
    cfgs = []
    for jobs in ((1, 2, 3, 4) if T else (1, 2, 3)):
        for n in ((2, 3, 4, 5) if T else (3, 4)):
            for pos in range(n):
                for kind in ('crc', 'fail'):
                    k = clean(n)
                    k[pos] = kind
                    cfgs.append(rcfg(jobs, k, lens=(1, 3, 5) if jobs < 4 else (3,), post=3))
            # two damaged blocks
            for p1, p2 in itertools.combinations(range(n), 2):
                if not T and (p2 - p1) > 2:
                    continue
                k = clean(n)
                k[p1], k[p2] = 'crc', 'crc'
                cfgs.append(rcfg(jobs, k, lens=(3,), post=3))
    ck.cov['rule'] = ('KzReader with damaged blocks (crc = decodes to garbage caught by the checksum, fail = codec error) in every position, '
                      'every edge replayed on the real Reader; record mode: checksummed real streams with bit flips / byte substitutions / '
                      'swaps inside block payloads (positions from the independent container parser), exhaustive byte substitution on small '
                      'streams, damage injected inside the pipeline before checksum verification; continued Reads after the first error; '
                      'judged by Trace_Reader (R_Prefix, R_NothingAfterError, R_EOFOnlyAtEnd)')
    kzreader.selftest_asis(ck, rcfg(2, ['ok', 'ok', 'crc', 'ok', 'eos']))
    scen = kzreader.run_models(ck, cfgs)
    kzreader.replay(ck, scen, {'R_Prefix', 'R_NothingAfterError', 'R_EOFOnlyAtEnd'})
    kzreader.record(ck, 'c02', 2000 if T else 300, thorough=T)
    kzreader.record(ck, 'c02x', 0, thorough=T)
    kzreader.record(ck, 'c02p', 0, thorough=T)
    ck.assumptions += ['a 32/64-bit checksum collision on a damaged block is not distinguished from a benign modification',
                       'modifications are confined to block payloads as located by harness/kzfmt (spec: KzFormat)']


# ------------------------------------------------------------------------------------------------
LEVEL['C09'] = 'model_checking'


def C09(ck):
    T = thorough(ck)
    cfgs = []
    for jobs in ((1, 2, 3, 4) if T else (1, 2, 3)):
        for n in ((0, 1, 2, 3, 4, 5, 6) if T else (0, 1, 2, 3, 5)):
            # a wire without end marker = cut at a block boundary / inside the next frame
            for last in (1, 2):
                cfgs.append(rcfg(jobs, ['ok'] * n, last=last, lens=(1, 3, 5) if jobs < 4 else (3,), hint=0))
            if n > 0:
                cfgs.append(rcfg(jobs, ['ok'] * n, lens=(3,), hint=n + 1))
                cfgs.append(rcfg(jobs, ['ok'] * n, lens=(3,), hint=1))
    ck.cov['rule'] = ('KzReader on wires without end marker (every number of complete blocks, jobs, hint, Read lengths): never a clean EOF; '
                      'every edge replayed on the real Reader with the real stream cut at the corresponding position; record mode: every cut '
                      'position 0..len-1 of small real streams (c09x) and random cuts of larger ones (c09), with and without checksum, '
                      'judged by Trace_Reader (R_EOFOnlyAtEnd, R_Prefix, R_NothingAfterError)')
    scen = kzreader.run_models(ck, cfgs)
    kzreader.replay(ck, scen, {'R_EOFOnlyAtEnd', 'R_Prefix'})
    kzreader.record(ck, 'c09x', 0, thorough=T)
    kzreader.record(ck, 'c09', 1500 if T else 250, thorough=T)
    ck.cov['exhaustive'] = False


# ------------------------------------------------------------------------------------------------
LEVEL['C11'] = 'model_checking'


def C11(ck):
    T = thorough(ck)
    cfgs = []
    for jobs in ((1, 2, 3, 4) if T else (1, 2, 3)):
        for n in ((2, 3, 5, 7) if T else (3, 5)):
            if jobs == 4 and n > 5:
                continue
            for fr in range(1, n + 3):
                for to in range(fr, n + 3):
                    if not T and jobs == 3 and (fr + to) % 2 == 1:
                        continue
                    cfgs.append(rcfg(jobs, clean(n), last=1, lens=(3,) if (T or jobs == 3) else (1, 5), fr=fr, to=to))
    ck.cov['rule'] = ('KzReader with every block range 1 <= from <= to <= blocks+2, jobs 1..3(4), every edge replayed on the real Reader; '
                      'record mode: every range of real streams of up to 12 blocks (c11x) and random ranges/codecs/jobs (c11); D_DEC hook '
                      'events prove skipped blocks are not decoded; judged by Trace_Reader')
    scen = kzreader.run_models(ck, cfgs)
    kzreader.replay(ck, scen, {'R_Prefix', 'R_EOFOnlyAtEnd'})
    kzreader.record(ck, 'c11x', 0, thorough=T)
    kzreader.record(ck, 'c11', 1500 if T else 250, thorough=T)
