"""Per-property checks. Each function fills a kzv.Check; see DESIGN.md section 5."""
import itertools, json, os, random
import kzv, kzreader

LEVEL = {}


def thorough(ck):
    return ck.tier == 'thorough'


def rcfg(jobs, kinds, last=1, lens=(1, 3), hint=0, fr=0, to=0, B=2, post=2):
    return {'Jobs': jobs, 'B': B, 'Kinds': list(kinds), 'LastSz': last, 'ReadLens': list(lens), 'HintBlocks': hint,
            'From': fr, 'To': to, 'MaxPost': post}


def clean(n):
    return ['ok'] * n + ['eos']


# ------------------------------------------------------------------------------------------------
LEVEL['C05'] = 'model_checking'


def C05(ck):
    T = thorough(ck)
    cfgs = []
    jobs_set = (1, 2, 3, 4) if T else (1, 2, 3)
    for jobs in jobs_set:
        for n in ((0, 1, 2, 3, 4, 5, 7) if T else (0, 1, 3, 5)):
            if jobs == 4 and n > 5:
                continue
            for last in (1, 2):
                if n == 0 and last == 2:
                    continue
                hints = {0, n} | ({1, 2} if T or jobs == 3 else set())
                for hint in sorted(hints):
                    cfgs.append(rcfg(jobs, clean(n), last=last, lens=(0, 1, 3, 5) if jobs < 4 else (1, 5), hint=hint))
    # same bytes for every job count also when a block range is requested (the compaction of a batch that starts with skipped
    # blocks is the one place where a delivered block changes buffers)
    for jobs in jobs_set[1:]:
        for fr, to in ((2, 0), (3, 5), (2, 4)) if not T else ((2, 0), (3, 0), (3, 5), (2, 4), (4, 6)):
            cfgs.append(rcfg(jobs, clean(5), lens=(3,), fr=fr, to=to))
    # the failure clause: a block fails in any position of a batch
    for jobs in jobs_set[1:]:
        for n in ((3, 4, 5) if T else (4,)):
            for pos in range(n):
                for kind in ('crc', 'fail'):
                    k = clean(n)
                    k[pos] = kind
                    cfgs.append(rcfg(jobs, k, lens=(1, 3) if jobs < 4 else (3,)))
    ck.cov['rule'] = ('KzReader exhaustively for each (jobs, wire, last block size, hint, Read lengths) config; every edge of each '
                      'state graph replayed on the real Reader through gates; record-mode runs over random codecs/jobs/Read lengths '
                      'judged by Trace_Reader; c05m: every transform on data that activates it, a dozen 256 KiB blocks with different content, decoded with 2..16 jobs. non-trivial = replay with >= 2 task steps, or record run with > 1 block')
    kzreader.selftest_asis(ck, rcfg(2, ['ok', 'ok', 'crc', 'ok', 'eos']))
    live = [rcfg(2, clean(3), lens=(3,)), rcfg(3, ['ok', 'crc', 'ok', 'ok', 'eos'], lens=(3,))]
    scen = kzreader.run_models(ck, cfgs, liveness_cfgs=live)
    kzreader.replay(ck, scen, {'R_Prefix', 'R_NothingAfterError'})
    kzreader.record(ck, 'c05', 1500 if T else 250, thorough=T)
    kzreader.record(ck, 'c05m', 0, thorough=T)
    # the failure clause on real streams: a source that ends inside block k is a decoding failure of block k
    kzreader.record(ck, 'c09', 800 if T else 150, thorough=T)
    ck.assumptions += ['abstract bytes are scaled to real bytes by realB/B (all cursor arithmetic is homogeneous)',
                       'codec correctness on the generated data is C01/C12/C13 territory: runs whose reference decode fails are skipped']


# ------------------------------------------------------------------------------------------------
LEVEL['C02'] = 'model_checking'


def C02(ck):
    T = thorough(ck)
    cfgs = []
    for jobs in ((1, 2, 3, 4) if T else (1, 2, 3)):
        for n in ((2, 3, 4, 5) if T else (3, 4)):
            for pos in range(n):
                for kind in ('crc', 'fail'):
                    k = clean(n)
                    k[pos] = kind
                    cfgs.append(rcfg(jobs, k, lens=(1, 3, 5) if jobs < 4 else (3,), post=3))
            # two damaged blocks
            for p1, p2 in itertools.combinations(range(n), 2):
                if not T and (p2 - p1) > 2:
                    continue
                k = clean(n)
                k[p1], k[p2] = 'crc', 'crc'
                cfgs.append(rcfg(jobs, k, lens=(3,), post=3))
    ck.cov['rule'] = ('KzReader with damaged blocks (crc = decodes to garbage caught by the checksum, fail = codec error) in every position, '
                      'every edge replayed on the real Reader; record mode: checksummed real streams with bit flips / byte substitutions / '
                      'swaps inside block payloads (positions from the independent container parser), exhaustive byte substitution on small '
                      'streams, damage injected inside the pipeline before checksum verification; continued Reads after the first error; '
                      'judged by Trace_Reader (R_Prefix, R_NothingAfterError, R_EOFOnlyAtEnd)')
    kzreader.selftest_asis(ck, rcfg(2, ['ok', 'ok', 'crc', 'ok', 'eos']))
    scen = kzreader.run_models(ck, cfgs)
    kzreader.replay(ck, scen, {'R_Prefix', 'R_NothingAfterError', 'R_EOFOnlyAtEnd'})
    kzreader.record(ck, 'c02', 2000 if T else 300, thorough=T)
    kzreader.record(ck, 'c02x', 0, thorough=T)
    kzreader.record(ck, 'c02p', 0, thorough=T)
    # the checksum functions cover every byte of a block: v2/hash equals an independent implementation on every length
    kzh = kzv.build_harness()
    hf = os.path.join(kzv.BUILD, 'tlc', 'hash_%d.ndjson' % os.getpid())
    rc, so, se, dt = kzv.run([kzh, 'hash', '-max', str(4200 if T else 1200), '-n', str(1000 if T else 100), '-seed', str(ck.seed), '-out', hf], timeout=3600)
    if rc != 0:
        raise kzv.ToolFailure('hash driver failed: ' + se[-1500:])
    res = kzv.validate_trace('Trace_Format', hf, timeout=900)
    if res.error or res.violated:
        raise kzv.ToolFailure('Trace_Format failed on hash events: %s %s' % (res.error, res.violated))
    tr = kzv.read_ndjson(hf)
    for e, pred in _violations_from(res.out, tr)[:3]:
        ck.violation({'kind': 'hash', 'pred': 'C02_checksum_does_not_cover_block', 'bits': e['bits'], 'n': e['n'], 'got': e['got'], 'want': e['want']},
                     {'cmd': 'hash', 'event': e}, name='hash')
    ck.cov['checksum_inputs'] = int(so.strip() or 0)
    ck.cov['evaluations'] += int(so.strip() or 0)
    ck.cov['states'] += res.distinct
    os.remove(hf)
    _cli_damage(ck, T)
    ck.assumptions += ['a 32/64-bit checksum collision on a damaged block is not distinguished from a benign modification',
                       'modifications are confined to block payloads as located by harness/kzfmt (spec: KzFormat)']


def _cli_damage(ck, T):
    """The property at the command line: `kanzi -d` on a checksummed stream with one damaged block payload must exit non-zero or deliver
    the original bytes. The read loop of the tool is a caller of the library of its own: block sizes below / not a multiple of its
    32 KiB read buffer, outputs without a size check (stdout, a stream without a size in its header), several jobs."""
    import random, hashlib, subprocess, shutil
    cli = kzv.build_cli()
    kzh = kzv.build_harness()
    root = os.path.join(kzv.BUILD, 'tlc', 'clidmg_%d' % os.getpid())
    shutil.rmtree(root, ignore_errors=True)
    os.makedirs(root)
    rnd = random.Random(ck.seed * 7717 + 5)
    events = []
    try:
        blocks = [1024, 4096, 8192, 12288, 49152, 65536, 32768]
        n = 60 if T else 14
        for i in range(n):
            B = blocks[i % len(blocks)]
            nb = rnd.randint(4, 12)
            size = (nb - 1) * B + rnd.randint(1, B)
            data = rnd.randbytes(size) if i % 3 else bytes(rnd.choice(b'abcdefgh \n') for _ in range(size))
            f = os.path.join(root, 'in%d' % i)
            open(f, 'wb').write(data)
            t, e = rnd.choice([('NONE', 'NONE'), ('LZ', 'HUFFMAN'), ('NONE', 'ANS0'), ('RLT', 'NONE')])
            opts = ['-b', str(B), '-t', t, '-e', e, rnd.choice(['-x32', '-x64']), '-j', str(rnd.choice([1, 2, 3, 4])), '-v', '0']
            knz = f + '.knz'
            piped = i % 2 == 0
            if piped:
                # from a pipe: no size in the header
                with open(f, 'rb') as fi, open(knz, 'wb') as fo:
                    rc = subprocess.run([cli, '-c'] + opts, stdin=fi, stdout=fo, stderr=subprocess.DEVNULL, timeout=600).returncode
            else:
                rc = subprocess.run([cli, '-c', '-i', f, '-o', knz, '-f'] + opts, stdout=subprocess.DEVNULL, stderr=subprocess.DEVNULL, timeout=600).returncode
            if rc != 0:
                raise kzv.ToolFailure('cli compression failed (%s)' % ' '.join(opts))
            rcp, so, se, dt = kzv.run([kzh, 'parse', knz], timeout=120)
            info = json.loads(so.splitlines()[0])
            if rcp != 0 or not info.get('ok'):
                raise kzv.ToolFailure('independent parser rejects a stream written by the tool: ' + so[:300])
            spans = [sp for sp in info['spans'] if sp[1] - sp[0] >= 64]
            stream = bytearray(open(knz, 'rb').read())
            for rep in range(3 if T else 2):
                bi = rnd.randrange(1 if len(spans) > 1 else 0, len(spans))
                a, b = spans[bi]
                bit = rnd.randrange(a + 16, b - 16)
                dmg = bytearray(stream)
                dmg[bit >> 3] ^= 0x80 >> (bit & 7)
                dfile = knz + '.dmg%d' % rep
                open(dfile, 'wb').write(dmg)
                jobs = rnd.choice([1, 2, 3, 4])
                how = ['stdout', 'file'][rep % 2]
                if how == 'stdout':
                    p = subprocess.run([cli, '-d', '-i', dfile, '-o', 'stdout', '-j', str(jobs), '-v', '0'], stdout=subprocess.PIPE, stderr=subprocess.DEVNULL, timeout=600)
                    got = p.stdout
                else:
                    outf = dfile + '.out'
                    p = subprocess.run([cli, '-d', '-i', dfile, '-o', outf, '-f', '-j', str(jobs), '-v', '0'], stdout=subprocess.DEVNULL, stderr=subprocess.DEVNULL, timeout=600)
                    got = open(outf, 'rb').read() if os.path.exists(outf) else b''
                events.append({'ev': 'DAMAGED', 'exit': p.returncode, 'equal': got == data,
                               'desc': '%s block %d of %d, bit %d flipped in block %d, -d -o %s -j %d, %s' % (' '.join(opts), B, len(spans), bit, bi, how, jobs,
                                                                                                         'compressed from a pipe' if piped else 'compressed from a file'),
                               'detail': 'delivered %d of %d bytes' % (len(got), len(data))})
        tracef = os.path.join(root, 'trace.ndjson')
        with open(tracef, 'w') as fh:
            for e in events:
                fh.write(json.dumps(e) + '\n')
        res = kzv.validate_trace('Trace_Cli', tracef, timeout=600)
        if res.error or res.violated:
            raise kzv.ToolFailure('Trace_Cli failed: %s %s' % (res.error, res.violated))
        for e, pred in _violations_from(res.out, events)[:5]:
            ck.violation({'kind': 'cli', 'pred': pred, 'desc': e['desc'], 'detail': e['detail'], 'exit': e['exit']}, {'cmd': 'cli-damage', 'event': e}, name='cli')
        ck.cov['evaluations'] += len(events)
        ck.cov['traces_validated_against_impl'] += len(events)
        ck.cov['cli_damaged_streams'] = len(events)
        ck.cov['cli_damaged_rejected'] = len([e for e in events if e['exit'] != 0])
        if events and not any(e['exit'] != 0 for e in events):
            raise kzv.ToolFailure('no damaged stream was rejected by the tool: the damage does not reach the blocks')
    finally:
        shutil.rmtree(root, ignore_errors=True)


def _chunk_header_fields(ck):
    """KzChunkHeader.tla: the fixed-width fields of a chunk header for every log range the constructors accept. The repaired code (log
    range capped at 15) satisfies FieldsFit and Mirror; the as-found constructors (F26 / F27) and the field width of seed C12ag
    must violate them, otherwise the model does not see what it is there for."""
    def run(cap, llr):
        c = ('CONSTANTS\n Accepted = {8, 9, 10, 11, 12, 13, 14, 15, 16}\n Cap = "%s"\n Llr = "%s"\nSPECIFICATION Spec\nINVARIANTS FieldsFit Mirror\n'
             'CHECK_DEADLOCK FALSE\n') % (cap, llr)
        return kzv.tlc('KzChunkHeader', c, workers=1, timeout=600)
    res = run('capped', 'loop')
    ck.add_tlc(res, 'KzChunkHeader capped loop')
    if not res.ok:
        raise kzv.ToolFailure('KzChunkHeader fails its own check: ' + res.out[-2000:])
    for cap, llr in (('asfound', 'loop'), ('capped', 'len1')):
        r2 = run(cap, llr)
        ck.cov.setdefault('selftest_chunk_header', {})['%s/%s' % (cap, llr)] = {'violated': r2.violated}
        if not r2.violated:
            raise kzv.ToolFailure('vacuity self-test: KzChunkHeader %s/%s violates nothing' % (cap, llr))


# ------------------------------------------------------------------------------------------------
LEVEL['C09'] = 'model_checking'


def C09(ck):
    T = thorough(ck)
    cfgs = []
    for jobs in ((1, 2, 3, 4) if T else (1, 2, 3)):
        for n in ((0, 1, 2, 3, 4, 5, 6) if T else (0, 1, 2, 3, 5)):
            # a wire without end marker = cut at a block boundary / inside the next frame
            for last in (1, 2):
                cfgs.append(rcfg(jobs, ['ok'] * n, last=last, lens=(1, 3, 5) if jobs < 4 else (3,), hint=0))
            if n > 0:
                cfgs.append(rcfg(jobs, ['ok'] * n, lens=(3,), hint=n + 1))
                cfgs.append(rcfg(jobs, ['ok'] * n, lens=(3,), hint=1))
            if n >= 2:
                # ... read with a block range: the end may be missing inside or right after a block that the range skips
                cfgs.append(rcfg(jobs, ['ok'] * n, lens=(3,), fr=2, to=0))
                cfgs.append(rcfg(jobs, ['ok'] * n, lens=(3,), fr=n + 1, to=n + 2))
                cfgs.append(rcfg(jobs, ['ok'] * n, lens=(3,), fr=1, to=2))
    ck.cov['rule'] = ('KzReader on wires without end marker (every number of complete blocks, jobs, hint, Read lengths): never a clean EOF; '
                      'every edge replayed on the real Reader with the real stream cut at the corresponding position; record mode: every cut '
                      'position 0..len-1 of small real streams (c09x) and random cuts of larger ones (c09), with and without checksum, '
                      'judged by Trace_Reader (R_EOFOnlyAtEnd, R_Prefix, R_NothingAfterError)')
    scen = kzreader.run_models(ck, cfgs)
    kzreader.replay(ck, scen, {'R_EOFOnlyAtEnd', 'R_Prefix'})
    kzreader.record(ck, 'c09x', 0, thorough=T)
    kzreader.record(ck, 'c09', 1500 if T else 250, thorough=T)
    ck.cov['exhaustive'] = False


# ------------------------------------------------------------------------------------------------
LEVEL['C11'] = 'model_checking'


def C11(ck):
    T = thorough(ck)
    cfgs = []
    for jobs in ((1, 2, 3, 4) if T else (1, 2, 3)):
        for n in ((2, 3, 5, 7) if T else (3, 5)):
            if jobs == 4 and n > 5:
                continue
            for fr in range(1, n + 3):
                for to in range(fr, n + 3):
                    if not T and jobs == 3 and (fr + to) % 2 == 1:
                        continue
                    cfgs.append(rcfg(jobs, clean(n), last=1, lens=(3,) if (T or jobs == 3) else (1, 5), fr=fr, to=to))
    ck.cov['rule'] = ('KzReader with every block range 1 <= from <= to <= blocks+2, jobs 1..3(4), every edge replayed on the real Reader; '
                      'record mode: every range of real streams of up to 12 blocks (c11x) and random ranges/codecs/jobs (c11); D_DEC hook '
                      'events prove skipped blocks are not decoded; judged by Trace_Reader')
    scen = kzreader.run_models(ck, cfgs)
    kzreader.replay(ck, scen, {'R_Prefix', 'R_EOFOnlyAtEnd'})
    kzreader.record(ck, 'c11x', 0, thorough=T)
    kzreader.record(ck, 'c11', 1500 if T else 250, thorough=T)


# ------------------------------------------------------------------------------------------------
import kzwriter
from kzwriter import wcfg

LEVEL['C04'] = 'model_checking'


def C04(ck):
    T = thorough(ck)
    cfgs = []
    for jobs in ((1, 2, 3, 4) if T else (1, 2, 3)):
        for L in ((0, 1, 4, 5, 7, 9) if T else (0, 3, 7)):
            if jobs == 4 and L > 7:
                continue
            nb = (L + 1) // 2
            hints = sorted({0, nb} | ({1, 2, nb + 2} if (T or jobs == 3) else {1}))
            for hint in hints:
                cfgs.append(wcfg(jobs, L, lens=(0, 1, 3, 5) if jobs < 4 else (3, 5), hint=hint))
    ck.cov['rule'] = ('KzWriter exhaustively for each (jobs, data length, hint, Write lengths): W_Partition/W_Mutex/W_TokenOrder in every '
                      'interleaving; every edge replayed on the real Writer through gates and the sink content compared frame by frame with '
                      'the data (independent parser); record mode: identical data+parameters through jobs {1,2,3,4,8,64} x Write partitions x '
                      'repeated runs x perturbed schedules must give byte-identical streams (Trace_Writer: Out events), over random transform '
                      'chains and all entropy codecs')
    kzwriter.selftest_asis(ck, wcfg(2, 6, hint=1))
    scen = kzwriter.run_models(ck, cfgs, liveness_cfgs=[wcfg(3, 7, lens=(3, 5))])
    kzwriter.replay(ck, scen)
    kzwriter.record(ck, 'c04', 150 if T else 33, thorough=T)
    # "every run": a run in which the sink failed once and Close was retried until it reported success has produced the same bytes
    # (W_CloseOK compares the sink with the frames of the accepted data)
    kzwriter.record(ck, 'c08', 6 if T else 3, thorough=True)
    ck.assumptions += ['E_Local (transform + entropy coding of one block) is treated as a function of the block: the record-mode digests test it']


LEVEL['C08'] = 'fault_enumeration'


def C08(ck):
    T = thorough(ck)
    cfgs = []
    for jobs in ((1, 2, 3) if T else (1, 2)):
        for L in ((3, 5, 7) if T else (5,)):
            nb = (L + 1) // 2
            # sink fault while block k is emitted (single, and pairs in thorough)
            for k in range(1, nb + 1):
                cfgs.append(wcfg(jobs, L, lens=(3, 5), flush='emit', fail_blocks=[k], post=3))
            if T:
                for k1, k2 in itertools.combinations(range(1, nb + 1), 2):
                    cfgs.append(wcfg(jobs, L, lens=(3,), flush='emit', fail_blocks=[k1, k2], post=3))
            # codec fault in block k
            for k in range(1, nb + 1):
                cfgs.append(wcfg(jobs, L, lens=(3, 5), flush='close', fail_local=[k], post=3))
            # faults of the final flush and of the Close of the sink, with retries
            for cf, sf in ((1, 0), (0, 1), (1, 1), (2, 0)) if T else ((1, 0), (0, 1), (1, 1)):
                cfgs.append(wcfg(jobs, L, lens=(3, 5), flush='close', close_fails=cf, sink_fails=sf, post=4))
    ck.cov['rule'] = ('KzWriter with a sink fault during the emit of every block, a codec fault in every block, failing final flush / sink '
                      'Close with retries: W_CloseOK, W_FailureReported, W_NoPanic; every edge replayed on the real Writer with the faults '
                      'placed by the model; record mode (fault_enumeration): fault-free run counts the sink calls, then one run per failing '
                      'call index k (once / forever / partial write) x caller reaction (close / retry close / keep writing), judged by '
                      'Trace_Writer (C08_swallowed_failure, W_CloseOK, C08_panic); source faults on the read side: KzBitIn in C06/C14')
    kzwriter.selftest_asis(ck, wcfg(2, 6, flush='emit', fail_blocks=[1]))
    scen = kzwriter.run_models(ck, cfgs)
    kzwriter.replay(ck, scen)
    kzwriter.record(ck, 'c08', 10 if T else 3, thorough=T)
    kzreader.record(ck, 'c08r', 600 if T else 150, thorough=T)
    ck.cov['exhaustive'] = False


LEVEL['C17'] = 'model_checking'


def C17(ck):
    T = thorough(ck)
    cfgs = []
    for jobs in ((1, 2, 3) if T else (1, 2)):
        for L in ((0, 2, 5, 7) if T else (0, 5)):
            cfgs.append(wcfg(jobs, L, lens=(0, 1, 2, 3, 5), post=4 if T else 3))
            cfgs.append(wcfg(jobs, L, lens=(0, 3), close_fails=1, post=3))
    rcfgs = []
    for jobs in (1, 2):
        for n in (0, 2, 3):
            rcfgs.append(rcfg(jobs, clean(n), lens=(0, 1, 3), post=4 if T else 3))
    ck.cov['rule'] = ('KzWriter / KzReader with the full call alphabet (Write/Read of lengths 0,1,B-1..,Close repeated, calls after Close) up to '
                      'MaxPost calls after the end: W_ClosedRefuses, R_ClosedRefuses, W_CloseOK; all edges replayed on the real objects; record '
                      'mode: random API programs over Write(len)/Close/GetWritten and Read/Close judged step by step by Trace_Writer / '
                      'Trace_Reader (idempotent Close, refusal after Close, full-length Write, monotone counters, GetWritten = sink size)')
    scen = kzwriter.run_models(ck, cfgs)
    kzwriter.replay(ck, scen)
    rscen = kzreader.run_models(ck, rcfgs)
    kzreader.replay(ck, rscen, set())
    kzwriter.record(ck, 'c17', 1500 if T else 300, thorough=T)
    kzreader.record(ck, 'c17r', 1500 if T else 300, thorough=T)
    # the lifecycle rules (counters monotone, Close idempotent, Read after Close refused) also hold for Readers whose source ends
    # early or fails after it has delivered some bytes
    kzreader.record(ck, 'c09', 600 if T else 150, thorough=T)
    kzreader.record(ck, 'c08r', 600 if T else 150, thorough=T)


LEVEL['C01'] = 'model_checking'


def C01(ck):
    T = thorough(ck)
    wcfgs, rcfgs = [], []
    for jobs in ((1, 2, 3) if T else (1, 2, 3)):
        for L in ((0, 1, 2, 5, 7, 9) if T else (0, 1, 5, 7)):
            nb = (L + 1) // 2
            # hint classes: absent, exact, smaller by >= 1 block, larger, one block
            for hint in sorted({0, nb, max(nb - 1, 0), nb + 2, 1}):
                if not T and jobs == 3 and hint not in (0, 1, nb):
                    continue
                wcfgs.append(wcfg(jobs, L, lens=(1, 3, 5) if L > 1 else (0, 1), hint=hint))
    for jobs in (1, 2, 3):
        for n in ((0, 1, 2, 3, 5) if T else (0, 2, 5)):
            for last in (1, 2):
                if n == 0 and last == 2:
                    continue
                rcfgs.append(rcfg(jobs, clean(n), last=last, lens=(1, 3, 5), hint=n if last == 1 else 0))
    ck.cov['rule'] = ('stream layer: KzWriter (every Write partition x hint class x jobs: W_CloseOK, W_Partition) and KzReader on clean wires '
                      '(R_CompleteAtEOF) model-checked, all edges replayed on the real code; codec layer (explored, not decided): record-mode '
                      'round trips through NewWriterWithCtx/NewReaderWithCtx over the ten level presets, all single transforms, random chains '
                      'of 1..8 transforms x 9 entropy codecs x 19 data shapes x block sizes x jobs x checksum x hint classes x headerless x '
                      'Write partitions, plus the full matrix entropy codec x data shape on untransformed blocks (c01m), judged by Trace_Writer (Close nil, decoded digest = accepted digest); configurations that the '
                      'constructor accepts must round-trip (c01cfg). non-trivial = distinct (chain, entropy, block, jobs, ck, hint, partition, shape)')
    kzwriter.selftest_asis(ck, wcfg(2, 6, hint=1))
    scen = kzwriter.run_models(ck, wcfgs)
    kzwriter.replay(ck, scen)
    rscen = kzreader.run_models(ck, rcfgs)
    kzreader.replay(ck, rscen, set())
    kzwriter.record(ck, 'c01', 6000 if T else 700, thorough=T, timeout=7000)
    kzwriter.record(ck, 'c01cfg', 1500 if T else 300, thorough=T)
    kzwriter.record(ck, 'c01m', 0, thorough=T)
    ck.assumptions += ['the codec layer is explored on generated data shapes, not decided for all inputs',
                       'decoding uses the real Reader (the round trip is the property)']


LEVEL['C07'] = 'model_checking'


def C07(ck):
    T = thorough(ck)
    wcfgs, rcfgs, wlive, rlive = [], [], [], []
    # writer: N tasks, a failure at every step kind of every task: local (before the wait), emit (holding the stream)
    for jobs in ((2, 3, 4) if T else (2, 3)):
        L = 2 * jobs + 1
        lens = (L,) if jobs == 4 else (3, L)
        wcfgs.append(wcfg(jobs, L, lens=lens))
        for k in range(1, jobs + 2):
            wcfgs.append(wcfg(jobs, L, lens=lens, flush='emit', fail_blocks=[k]))
            wcfgs.append(wcfg(jobs, L, lens=lens, flush='close', fail_local=[k]))
        wlive.append(wcfg(jobs, L, lens=(L,), flush='emit', fail_blocks=[2]))
        wlive.append(wcfg(jobs, L, lens=(L,), fail_local=[1]))
    # reader: N tasks, failure (crc after publishing, fail, truncation while holding the stream), end of stream, skipped blocks
    for jobs in ((2, 3, 4) if T else (2, 3)):
        n = jobs + 1
        lens = (2 * n,) if jobs == 4 else (3, 2 * n)
        rcfgs.append(rcfg(jobs, clean(n), lens=lens))
        for pos in range(n):
            for kind in ('crc', 'fail'):
                k = clean(n)
                k[pos] = kind
                rcfgs.append(rcfg(jobs, k, lens=lens))
            rcfgs.append(rcfg(jobs, ['ok'] * pos, lens=lens))          # truncated after pos blocks
        rcfgs.append(rcfg(jobs, clean(n), lens=lens, fr=2, to=3))
        rcfgs.append(rcfg(jobs, clean(n), lens=lens, fr=n + 1, to=n + 2))  # every batch entirely skipped
        rlive.append(rcfg(jobs, ['ok', 'crc'] + ['ok'] * (n - 2) + ['eos'], lens=(2 * n,)))
        rlive.append(rcfg(jobs, ['ok'] * 2, lens=(2 * n,)))
    ck.cov['rule'] = ('protocol configs of KzWriter/KzReader: N = 2..3 (4 in thorough) concurrent tasks x a failure in every block position and '
                      'of every kind (codec error before the wait, sink/source failure while holding the stream, checksum error after '
                      'publishing), end of stream, skipped batches: Mutex, TokenOrder, CancelSticks, FailureReported, deadlock freedom, and '
                      'liveness (every call returns, every task finishes) under weak fairness; every edge of every graph replayed on the '
                      'real code through the gate hooks with the faults injected at the same steps; free-running executions (jobs up to 64) '
                      'checked for exclusive, ordered, always-terminating hand-off by Trace_Reader/Trace_Writer interval predicates')
    # the protocol in isolation: KzToken for small N (safety, liveness, as-found variant as self-test), the TLAPS proofs of the
    # safety clauses for EVERY N, and the refinement KzReader => KzToken, KzWriter => KzToken on the configurations replayed below
    import kztoken
    kztoken.token_models(ck, (1, 2, 3, 4, 5) if T else (1, 2, 3, 4))
    kztoken.token_proofs(ck)
    kztoken.token_refinement(ck, rcfgs, wcfgs, selftest_rcfg=rcfg(3, ['ok', 'crc', 'ok', 'ok', 'eos'], lens=(3,)))
    ck.cov['rule'] += ('; KzToken (the hand-off protocol alone): exclusive / ordered / cancellation sticks / failure cancels proved with '
                       'TLAPS for every number of tasks, liveness model-checked for N <= 4 (5), and KzReader / KzWriter shown by TLC to '
                       'refine KzToken on every configuration above')
    scen = kzwriter.run_models(ck, wcfgs, liveness_cfgs=wlive)
    kzwriter.replay(ck, scen)
    rscen = kzreader.run_models(ck, rcfgs, liveness_cfgs=rlive)
    kzreader.replay(ck, rscen, set())
    kzreader.record(ck, 'c05', 1200 if T else 200, thorough=T)
    kzreader.record(ck, 'c02', 1200 if T else 200, thorough=T)
    kzwriter.record(ck, 'c07w', 1500 if T else 250, thorough=T)


LEVEL['C06'] = 'model_checking'


def C06(ck):
    T = thorough(ck)
    wcfgs, rcfgs = [], []
    for jobs in (1, 2, 3):
        for L in ((5, 7) if T else (7,)):
            wcfgs.append(wcfg(jobs, L, lens=(0, 1, 2, 3, 4, 5), hint=0))
        for n in ((3, 5) if T else (4,)):
            for last in (1, 2):
                rcfgs.append(rcfg(jobs, clean(n), last=last, lens=(0, 1, 2, 3, 4, 5)))
    ck.cov['rule'] = ('KzWriter/KzReader with every mix of Write/Read buffer lengths 0..5 (block = 2): W_Partition and R_Prefix are independent '
                      'of the call partition (model-checked, replayed); KzBitIn (input bitstream over a source delivering arbitrary chunk '
                      'sizes) model-checked in C14; record mode: real streams over all codec pairs decoded through sources delivering '
                      '1, 7, 8, 9, 13/5/64, 1..7, random, 4095+1 bytes per call with random Read buffer sizes (incl. 0) and compressed '
                      'through random Write partitions: digests equal the plain run (Trace_Reader / Trace_Writer)')
    scen = kzwriter.run_models(ck, wcfgs)
    kzwriter.replay(ck, scen)
    rscen = kzreader.run_models(ck, rcfgs)
    kzreader.replay(ck, rscen, set())
    kzreader.record(ck, 'c06', 2000 if T else 400, thorough=T)
    kzreader.record(ck, 'c06d', 0, thorough=T)
    kzwriter.record(ck, 'c04', 60 if T else 8, thorough=T)
    # the component that talks to the source: bit-level programs read back through sources delivering 1, 7, 8, 9, 13/5/64 ... bytes per
    # call, arrays larger than the internal buffer included (the same programs as C14; here only what depends on the chunking counts)
    _bits_run(ck, [], 6000 if T else 1200, T, ('C14_read_values', 'C14_read_faults', 'C14_read_counter'))


# ------------------------------------------------------------------------------------------------
def _tables_in_codecs(ck, T):
    """The calls that count: every call of NormalizeFrequencies that ANS0, ANS1 and RANGE make while they encode the case space of the
    entropy driver (real data of every shape, every log range and chunk size, several blocks through one object), observed by the hook
    in the entropy package (histogram on entry, table and alphabet on return) and judged by Trace_Norm like the directed families.
    Calls whose total is not the sum of the histogram are outside the statement (they are the caller's defect and C12 reports its
    consequence); they are counted in the evidence."""
    kzh = kzv.build_harness()
    base = os.path.join(kzv.BUILD, 'tlc', 'enttab_%d' % os.getpid())
    cmd = [kzh, 'entropy', '-n', str(3000 if T else 300), '-seed', str(ck.seed), '-out', base + '.ndjson', '-sum', base + '.sum', '-par', str(kzv.NCPU),
           '-codecs', 'ANS0,ANS1,RANGE', '-tables', base + '.tab.ndjson', '-maxtables', str(20000 if T else 1500)]
    if T:
        cmd.append('-thorough')
    rc, so, se, dt = kzv.run(cmd, timeout=3 * 3600)
    if rc != 0:
        raise kzv.ToolFailure('entropy driver failed: ' + se[-1500:])
    tr = kzv.read_ndjson(base + '.tab.ndjson')
    summ = [e for e in tr if e.get('ev') == 'NORMSUM']
    if not summ or summ[0]['distinct'] < 100:
        raise kzv.ToolFailure('the hook in NormalizeFrequencies recorded no calls (harness built without the verif tag?)')
    res = kzv.validate_trace('Trace_Norm', base + '.tab.ndjson', timeout=3000)
    if res.error or res.violated:
        raise kzv.ToolFailure('Trace_Norm failed on codec calls: %s %s' % (res.error, res.violated))
    seen = 0
    for e, pred in _violations_from(res.out, tr):
        if seen >= 5:
            break
        seen += 1
        ck.violation({'kind': 'norm', 'pred': pred, 'src': 'call made by a codec', 'in': e['in'][:40], 'scale': e['scale'], 'out': e['out'][:40], 'alphaOK': e['alphaOK']},
                     {'cmd': 'norm', 'event': e}, name='codec_table')
    ck.cov['evaluations'] += summ[0]['distinct']
    ck.cov['traces_validated_against_impl'] += summ[0]['distinct']
    ck.cov['codec_calls_observed'] = summ[0]['calls']
    ck.cov['codec_calls_distinct_judged'] = summ[0]['distinct']
    ck.cov['codec_calls_with_inconsistent_total'] = summ[0]['inconsistentTotal']
    ck.cov['states'] += res.distinct
    for f in (base + '.ndjson', base + '.sum', base + '.tab.ndjson'):
        if os.path.exists(f):
            os.remove(f)


LEVEL['C16'] = 'model_checking'


def _norm_cfg(impl, fam, rare=254, dom=4, bigs=(10, 100, 1000), lrs=(8, 12), maxlen=3, menu=(1, 2, 3)):
    mc = '---- MODULE MC_N ----\nEXTENDS KzNormFreq\nMCBigs == {%s}\nMCLRs == {%s}\nMCMenu == {%s}\n====\n' % (
        ','.join(map(str, bigs)), ','.join(map(str, lrs)), ','.join(map(str, menu)))
    c = ('CONSTANTS\n Impl = "%s"\n MaxRare = %d\n MaxDom = %d\n Bigs <- MCBigs\n LRs <- MCLRs\n MaxLen = %d\n Menu <- MCMenu\n Fam = "%s"\n'
         'SPECIFICATION Spec\nINVARIANT Valid\nCHECK_DEADLOCK FALSE\n') % (impl, rare, dom, maxlen, fam)
    return mc, c


def C16(ck):
    import re
    from concurrent.futures import ThreadPoolExecutor
    T = thorough(ck)
    rnd = random.Random(ck.seed * 7 + 3)
    # (a) the transcription satisfies ValidTable on the enumerated families (fixed), and can fail (as-is)
    runs = [('fixed', 'A', dict(rare=254 if T else 120, dom=6 if T else 3, bigs=(10, 100, 1000, 100000) if T else (10, 1000), lrs=(8, 10, 12, 16) if T else (8, 12))),
            ('fixed', 'B', dict(maxlen=4 if T else 3, menu=(1, 2, 3, 7, 40, 255, 256, 1000, 65535) if T else (1, 2, 3, 40, 255, 256, 1000), lrs=(8, 9, 12, 16) if T else (8, 12))),
            ('fixed', 'C', dict(dom=12 if T else 6, lrs=(8, 9, 10, 11, 12) if T else (8, 10, 12))),
            ('fixed', 'D', dict(rare=256, dom=16 if T else 64, menu=(1, 2, 3) if T else (1, 2), lrs=(8, 9) if T else (8,))),
            ('asis', 'A', dict(rare=100, dom=3, bigs=(10, 100, 1000), lrs=(8, 12)))]

    def one(r):
        mc, c = _norm_cfg(r[0], r[1], **r[2])
        return kzv.tlc('MC_N', c, workers=4, timeout=3000, extra_files={'MC_N.tla': mc}, heap='3g', xss='256m')
    with ThreadPoolExecutor(max_workers=4) as ex:
        results = list(ex.map(one, runs))
    for r, res in zip(runs, results):
        if r[0] == 'fixed':
            ck.add_tlc(res, label='KzNormFreq %s family %s' % (r[0], r[1]))
            if not res.ok:
                raise kzv.ToolFailure('KzNormFreq (fixed) violates ValidTable: ' + res.out[-2000:])
        else:
            ck.cov['selftest_asis'] = {'violated': res.violated, 'histograms': res.distinct}
            if not res.violated:
                raise kzv.ToolFailure('vacuity self-test: as-is transcription passes ValidTable')
    # (b) the same families + random histograms through the real function, judged by TLC (Trace_Norm)
    cases = []
    convs = [('sym', 'spread'), ('sym', 'first'), ('sym', 'last'), ('compact', '')]
    step = 3 if T else 11
    for lr in ((8, 9, 10, 12, 14, 16) if T else (8, 12, 16)):
        for r in range(0, 256, step):
            for d in ((1, 2, 3, 4, 8) if T else (1, 2, 4)):
                for big in ((10, 100, 1000, 100000) if T else (10, 1000)):
                    if 1 <= r + d <= 256 and r + d <= (1 << lr):
                        cv = convs[(r + d + lr) % 4]
                        cases.append({'in': [1] * r + [big + i for i in range(d)], 'lr': lr, 'conv': cv[0], 'pos': cv[1]})
    # exact-total and near-total histograms (shortcut path), tiny alphabets
    for lr in (8, 11, 12, 16):
        S = 1 << lr
        for cv in convs:
            cases.append({'in': [S // 2, S - S // 2], 'lr': lr, 'conv': cv[0], 'pos': cv[1]})
            cases.append({'in': [S], 'lr': lr, 'conv': cv[0], 'pos': cv[1]})
            cases.append({'in': [1] * min(256, S), 'lr': lr, 'conv': cv[0], 'pos': cv[1]})
            cases.append({'in': [S - 1, 2], 'lr': lr, 'conv': cv[0], 'pos': cv[1]})
    # rounding boundaries of the quantisation (family C of KzNormFreq, here for every scale): a symbol of count f in a total
    # where f*scale/total = k + 1/2, one below, one above
    for lr in ((8, 9, 10, 11, 12, 13, 14, 15, 16) if T else (8, 10, 12, 14, 16)):
        S = 1 << lr
        for f in ((1, 2, 3, 4, 5, 7, 11) if T else (1, 2, 3, 5)):
            for k in range(4):
                for dl in (-1, 0, 1):
                    tot = (2 * f * S) // (2 * k + 1) + dl
                    if tot - f - 1 < 1:
                        continue
                    cv = convs[(lr + f + k + dl) % 4]
                    cases.append({'in': [f, tot - f], 'lr': lr, 'conv': cv[0], 'pos': cv[1]})
                    cases.append({'in': [f, 1, tot - f - 1], 'lr': lr, 'conv': cv[0], 'pos': cv[1]})
                    if tot - f - 40 >= 1:
                        cases.append({'in': [1] * 20 + [f, tot - f - 40] + [1] * 20, 'lr': lr, 'conv': cv[0], 'pos': cv[1]})
    # flat and two-level histograms without a dominant symbol (family D of KzNormFreq): every alphabet size; at the smallest
    # scales every scaled frequency is 1 or 2 and the whole residual has to be spread over the symbols
    for lr in ((8, 9, 10, 11, 12, 16) if T else (8, 9, 12)):
        S = 1 << lr
        for n in range(1, 257, 1 if (T or lr == 8) else 5):
            if n > S:
                continue
            cv = convs[(n + lr) % 4]
            for c in (1, 2, 3, 7):
                cases.append({'in': [c] * n, 'lr': lr, 'conv': cv[0], 'pos': cv[1]})
            if n >= 4 and (T or n % 3 == 0 or lr == 8):
                for a in (1, n // 4, n // 2, n - 1):
                    cases.append({'in': [1] * a + [2] * (n - a), 'lr': lr, 'conv': cv[0], 'pos': cv[1]})
                    cases.append({'in': [2 + (i % 2) for i in range(a)] + [1] * (n - a), 'lr': lr, 'conv': cv[0], 'pos': cv[1]})
    # totals around the places where count * scale crosses a power of two of the machine arithmetic (2^31, 2^32): a dominant symbol
    # next to a few rare ones, in every position
    for lr in range(8, 17):
        for k in (30, 31, 32, 33):
            base = 1 << (k - lr)
            if base < 512 or base > (1 << 27):
                continue
            for T2 in sorted({base - 1, base - 2, base - 127, base, base + 1, base - (1 << max(0, 31 - 2 * lr)) - 1}):
                if T2 < 300:
                    continue
                cv = convs[(lr + k) % 4]
                cases.append({'in': [T2 - 2, 1, 1], 'lr': lr, 'conv': cv[0], 'pos': cv[1]})
                cases.append({'in': [1, T2 - 2, 1], 'lr': lr, 'conv': cv[0], 'pos': cv[1]})
                cases.append({'in': [1, 1, T2 - 2], 'lr': lr, 'conv': cv[0], 'pos': cv[1]})
                cases.append({'in': [1] * 100 + [T2 - 126] + [1] * 26, 'lr': lr, 'conv': cv[0], 'pos': cv[1]})
                cases.append({'in': [T2 // 2, T2 - T2 // 2], 'lr': lr, 'conv': cv[0], 'pos': cv[1]})
    nrand = 6000 if T else 500
    for i in range(nrand):
        lr = rnd.choice((8, 9, 10, 11, 12, 13, 14, 15, 16))
        n = rnd.choice((1, 2, 3, 5, 17, 64, 200, 255, 256))
        n = min(n, 1 << lr)
        kind = rnd.randrange(5)
        if kind == 0:
            h = [rnd.randint(1, 4) for _ in range(n)]
        elif kind == 1:
            h = [rnd.randint(1, 1 << rnd.randint(1, 26)) for _ in range(n)]
        elif kind == 2:
            h = [1] * n
            for _ in range(rnd.randint(1, 3)):
                h[rnd.randrange(n)] = rnd.randint(2, 1 << 20)
        elif kind == 3:
            h = sorted(rnd.randint(1, 5000) for _ in range(n))
        else:
            h = [max(1, int(rnd.expovariate(1 / 50.0))) for _ in range(n)]
        cv = rnd.choice(convs)
        cases.append({'in': h, 'lr': lr, 'conv': cv[0], 'pos': cv[1]})
    _tables_in_codecs(ck, T)
    kzh = kzv.build_harness()
    base = os.path.join(kzv.BUILD, 'tlc', 'norm_%d' % os.getpid())
    nchunks = min(kzv.NCPU, 16)
    chunks = [cases[i::nchunks] for i in range(nchunks)]

    def judge(i):
        cf, tf = '%s.%d.cases' % (base, i), '%s.%d.ndjson' % (base, i)
        with open(cf, 'w') as fh:
            for c in chunks[i]:
                fh.write(json.dumps(c) + '\n')
        rc, so, se, dt = kzv.run([kzh, 'norm', cf, tf], timeout=600)
        if rc != 0:
            raise kzv.ToolFailure('norm driver failed: ' + se[-1000:])
        res = kzv.validate_trace('Trace_Norm', tf, timeout=3000)
        if res.error or res.violated:
            raise kzv.ToolFailure('Trace_Norm failed: %s %s\n%s' % (res.error, res.violated, res.out[-1500:]))
        tr = kzv.read_ndjson(tf)
        v = [tr[int(x) - 1] for x in re.findall(r'<<"VIOLATION_AT", (\d+), "C16_invalid_table">>', res.out)]
        d = [tr[int(x) - 1] for x in re.findall(r'<<"DRIFT_AT", (\d+)>>', res.out)]
        for f in (cf, tf):
            os.remove(f)
        return res, v, d, tr[:1]
    with ThreadPoolExecutor(max_workers=nchunks) as ex:
        outs = list(ex.map(judge, range(nchunks)))
    ndrift = 0
    for res, v, d, sample in outs:
        ck.cov['states'] += res.distinct
        ck.cov['transitions'] += res.generated
        ndrift += len(d)
        for e in v:
            ck.violation({'kind': 'norm', 'pred': 'C16_invalid_table', 'in': e['in'][:40], 'scale': e['scale'], 'conv': e['conv'], 'err': e.get('err')},
                         {'cmd': 'norm', 'event': e}, name='norm')
        for s in sample:
            ck.sample({'NORM': {k: (v2 if not isinstance(v2, list) else v2[:12]) for k, v2 in s.items()}}, cap=3)
    distinct = len(set((tuple(c['in']), c['lr'], c['conv']) for c in cases if len(c['in']) >= 2))
    ck.cov['evaluations'] += len(cases)
    ck.cov['distinct_nontrivial'] += distinct
    ck.cov['traces_validated_against_impl'] += len(cases)
    ck.cov['drift_vs_transcription'] = ndrift
    ck.cov['rule'] = ('NormalizeFrequencies transcribed in KzNormFreq.tla; TLC checks ValidTable on the transcription over family A (r symbols of '
                      'count 1 + d dominant symbols), family B (all short sequences over a menu), family C (rounding boundaries) and family D (flat / two-level histograms of every alphabet size, no dominant symbol); the same families plus exact-total and random '
                      'histograms (counts up to 2^26, alphabets 1..256, scales 2^8..2^16, both calling conventions: symbol-indexed as ANS/RANGE, '
                      'compact as HUFFMAN) go through the real function and TLC evaluates ValidTable on the real outputs (verdict) and equality '
                      'with the transcription (drift, reported only). non-trivial = distinct histogram with >= 2 symbols')
    if ndrift:
        ck.notes.append('%d real outputs are valid tables that differ from the transcription (drift, not a violation)' % ndrift)
    ck.assumptions += ['totalFreq passed to the function is the true sum of the counts (as all callers do)',
                       'histograms with count*scale >= 2^31 are judged on the post-condition only (TLC integers are 32 bit)']


# ------------------------------------------------------------------------------------------------
LEVEL['C15'] = 'model_checking'

T_NAMES = ['NONE', 'BWT', 'BWTS', 'LZ', 'RLT', 'ZRLT', 'MTFT', 'RANK', 'EXE', 'TEXT', 'ROLZ', 'ROLZX', 'SRT', 'LZP', 'MM', 'LZX',
           'UTF', 'PACK', 'DNA']
E_NAMES = ['NONE', 'HUFFMAN', 'FPAQ', 'RANGE', 'ANS0', 'CM', 'TPAQ', 'ANS1', 'TPAQX']
# data on which the variant-specific code paths of a transform are active
SHAPE_FOR = {'TEXT': 'text', 'UTF': 'utf8', 'DNA': 'dna', 'PACK': 'smallalpha', 'EXE': 'exe', 'MM': 'wav', 'ROLZX': 'text', 'ROLZ': 'text',
             'RLT': 'runs', 'ZRLT': 'sparse', 'BWT': 'text', 'BWTS': 'text', 'LZ': 'html', 'LZX': 'html', 'LZP': 'html', 'SRT': 'text',
             'RANK': 'runs', 'MTFT': 'runs', 'NONE': 'mixed'}


def C15(ck):
    import re
    T = thorough(ck)
    rnd = random.Random(ck.seed * 11 + 5)
    # (a) the tables of KzNames: round trips for all chains up to 3 (quick 2) over all 19 names
    names_set = '{' + ', '.join('"%s"' % n for n in T_NAMES) + '}'
    mc = '---- MODULE MC_K ----\nEXTENDS KzNames\nMCNames == %s\n====\n' % names_set
    c = 'CONSTANTS\n MaxChain = %d\n Names <- MCNames\nSPECIFICATION Spec\nINVARIANTS RoundTripName RoundTripType LeftAligned Injective\nCHECK_DEADLOCK FALSE\n' % (3 if T else 2)
    res = kzv.tlc('MC_K', c, workers=8, timeout=1800, extra_files={'MC_K.tla': mc}, heap='3g')
    ck.add_tlc(res, 'KzNames chains')
    if not res.ok:
        raise kzv.ToolFailure('KzNames fails its own check: ' + res.out[-2000:])
    # (b) every spelling through the real GetType/GetName, and through the full Writer/Reader
    cases = []
    for n in T_NAMES:
        for m in range(1 << len(n)):
            cases.append({'kind': 't', 'names': [n], 'masks': [m]})
    for n in E_NAMES:
        for m in range(1 << len(n)):
            cases.append({'kind': 'e', 'ename': n, 'emask': m})
    # all chains of length 2 (and 3 in thorough, sampled in quick), random chains up to 8 with NONE fillers
    for a in T_NAMES:
        for b in T_NAMES:
            cases.append({'kind': 't', 'names': [a, b], 'masks': [rnd.randrange(1 << len(a)), rnd.randrange(1 << len(b))]})
    if T:
        for a in T_NAMES:
            for b in T_NAMES:
                for c3 in T_NAMES:
                    cases.append({'kind': 't', 'names': [a, b, c3], 'masks': [rnd.randrange(1 << len(x)) for x in (a, b, c3)]})
    for i in range(3000 if T else 400):
        k = rnd.randint(3, 8)
        ch = [rnd.choice(T_NAMES + ['NONE'] * 4) for _ in range(k)]
        cases.append({'kind': 't', 'names': ch, 'masks': [rnd.randrange(1 << len(x)) for x in ch]})

    def stream_cases(names, ename, nvariants, size=20000):
        key = '+'.join(names) + '&' + ename
        shape = SHAPE_FOR.get([n for n in names if n != 'NONE'][0] if any(n != 'NONE' for n in names) else 'NONE', 'mixed')
        if ename in ('TPAQ', 'TPAQX', 'CM'):
            size = min(size, 12000)
        base = {'kind': 's', 'names': names, 'ename': ename, 'shape': shape, 'size': size, 'key': key, 'block': 16384}
        out = [dict(base, masks=[0] * len(names), emask=0, canon=True)]
        full = [(1 << len(n)) - 1 for n in names]
        variants = [(full, (1 << len(ename)) - 1)]
        for _ in range(nvariants - 1):
            variants.append(([rnd.randrange(1 << len(n)) for n in names], rnd.randrange(1 << len(ename))))
        for ms, em in variants:
            out.append(dict(base, masks=ms, emask=em, canon=False))
        return out
    # every transform name and every entropy name end to end: all-lower + mixed spellings against the canonical one
    for n in T_NAMES:
        for e in (('NONE', 'HUFFMAN', 'TPAQX') if T else ('HUFFMAN',)):
            cases += stream_cases([n], e, 3 if T else 2)
    for e in E_NAMES:
        for tn in (('NONE', 'TEXT', 'LZ') if T else ('TEXT',)):
            cases += stream_cases([tn], e, 3 if T else 2)
    pairs = [(a, b) for a in T_NAMES for b in T_NAMES]
    rnd.shuffle(pairs)
    for a, b in pairs[:(361 if T else 40)]:
        cases += stream_cases([a, b], rnd.choice(E_NAMES[:5]), 2, size=8000)
    for i in range(60 if T else 8):
        k = rnd.randint(3, 8)
        ch = [rnd.choice(T_NAMES) for _ in range(k)]
        cases += stream_cases(ch, rnd.choice(E_NAMES), 2, size=6000)
    # third clause: every type in a header names the variant really used. Entropy NONE, canonical spelling, every ordered pair of
    # transforms and the same-family pairs with another stage (or a NONE filler) in between, on two data shapes: the driver undoes
    # the stream stage by stage with codecs built from the header types alone (field `stagewise`)
    fams = [('LZ', 'LZX', 'LZP'), ('MTFT', 'RANK'), ('ROLZ', 'ROLZX'), ('PACK', 'DNA'), ('BWT', 'BWTS')]
    vchains = [[a, b] for a in T_NAMES for b in T_NAMES]
    for fam in fams:
        for a in fam:
            for b in fam:
                for x in (('NONE', 'RLT', 'TEXT', 'BWT', 'ZRLT') if T else ('NONE', 'RLT', 'TEXT')):
                    vchains.append([a, x, b])
    for ch in vchains:
        for shape in ('html', 'runs', 'dnarep') if T else ('html', 'runs'):
            key = '+'.join(ch) + '&NONE|v|' + shape
            cases.append({'kind': 's', 'names': ch, 'ename': 'NONE', 'shape': shape, 'size': 9000, 'key': key, 'block': 16384,
                          'masks': [0] * len(ch), 'emask': 0, 'canon': True})
    # headerless streams
    for n in ('ROLZX', 'TEXT', 'LZ'):
        for e in ('TPAQX', 'ANS0'):
            hc = stream_cases([n], e, 2)
            for x in hc:
                x['headerless'] = True
                x['key'] += '|hl'
            cases += hc
    kzh = kzv.build_harness()
    base = os.path.join(kzv.BUILD, 'tlc', 'names_%d' % os.getpid())
    with open(base + '.cases', 'w') as fh:
        for x in cases:
            fh.write(json.dumps(x) + '\n')
    rc, so, se, dt = kzv.run([kzh, 'names', base + '.cases', base + '.ndjson'], timeout=3000)
    if rc != 0:
        raise kzv.ToolFailure('names driver failed: ' + se[-1500:])
    res = kzv.validate_trace('Trace_Names', base + '.ndjson', timeout=1800)
    if res.error or res.violated:
        raise kzv.ToolFailure('Trace_Names failed: %s %s\n%s' % (res.error, res.violated, res.out[-1500:]))
    tr = kzv.read_ndjson(base + '.ndjson')
    ck.cov['states'] += res.distinct
    ck.cov['transitions'] += res.generated
    for ln, pred in re.findall(r'<<"VIOLATION_AT", (\d+), "([^"]+)">>', res.out):
        e = tr[int(ln) - 1]
        names = e.get('names') or []
        sw = e.get('stagewise', '')
        w = {'kind': 'names', 'pred': pred, 'spelled': e.get('spelled'), 'rt': e.get('rt')}
        if pred == 'C15_header_type_is_not_the_variant_used':
            # the diagnosis of the driver identifies the finding: which stage, which variant really encoded it
            m = re.search(r'header says (\w+), the data were encoded by (\w+)', sw)
            w['stagewise'] = sw
            w['mismatch'] = ('%s encoded by %s' % (m.group(1), m.group(2))) if m else 'other'
            w['both_rolz_variants_in_chain'] = ('ROLZ' in names and 'ROLZX' in names)
        ck.violation(w, {'cmd': 'names', 'event': e}, name='names')
    ns = len([x for x in cases if x['kind'] == 's'])
    ck.cov['evaluations'] += len(cases)
    ck.cov['distinct_nontrivial'] += len(set(json.dumps(x, sort_keys=True) for x in cases if x['kind'] == 's' or len(x.get('names', [])) > 1))
    ck.cov['traces_validated_against_impl'] += len(cases)
    ck.cov['streams'] = ns
    ck.sample({'TNAME': tr[5]})
    ck.sample({'STREAM': [x for x in tr if x['ev'] == 'STREAM'][1]})
    ck.cov['rule'] = ('KzNames.tla (code tables, packing with NONE removed, canonical names) model-checked for all chains up to length 2 (3); every case '
                      'variant of the 19 transform and 9 entropy names, all chains of length 2 (3), random chains to 8 with NONE fillers through the real '
                      'GetType/GetName, judged against the spec tables by Trace_Names.tla; every name (and sampled chains) end to end through '
                      'Writer/Reader in lower/mixed case on data that activates the variant: stream digest must equal the canonical spelling, header type '
                      'codes (independent parser) must equal the spec codes, round trip must succeed; every ordered pair of transforms and the same-family '
                      'pairs with a stage in between (entropy NONE) are undone stage by stage with codecs built from the header types alone: every type '
                      'must name the variant that encoded the stage. non-trivial = stream case or chain case')
    for f in (base + '.cases', base + '.ndjson'):
        os.remove(f)


# ------------------------------------------------------------------------------------------------
LEVEL['C03'] = 'exploration'


def _violations_from(res_out, tr):
    import re
    return [(tr[int(ln) - 1], pred) for ln, pred in re.findall(r'<<"VIOLATION_AT", (\d+), "([^"]+)">>', res_out)]


def C03(ck):
    import shutil
    T = thorough(ck)
    # (a) containment design: helper goroutines (KzHelpers) and the reader under faults (liveness, deadlock freedom)
    for nh, bad in ((2, '{}'), (2, '{1}'), (3, '{2, 3}')):
        c = 'CONSTANTS\n NHelpers = %d\n Impl = "fixed"\n BadInput = %s\nSPECIFICATION FairSpec\nINVARIANTS Alive Reported\nPROPERTIES Terminates\n' % (nh, bad)
        res = kzv.tlc('KzHelpers', c, workers=1, timeout=300)
        ck.add_tlc(res, 'KzHelpers fixed %d %s' % (nh, bad))
        if not res.ok:
            raise kzv.ToolFailure('KzHelpers (fixed) fails: ' + res.out[-1500:])
    res = kzv.tlc('KzHelpers', 'CONSTANTS\n NHelpers = 2\n Impl = "asis"\n BadInput = {1}\nSPECIFICATION Spec\nINVARIANTS Alive\n', workers=1, timeout=300)
    ck.cov['selftest_asis'] = {'violated': res.violated}
    if not res.violated:
        raise kzv.ToolFailure('vacuity self-test: as-is helper design keeps the process alive')
    live = []
    for jobs in (2, 3):
        live.append(rcfg(jobs, ['ok', 'fail', 'ok', 'eos'], lens=(5,)))
        live.append(rcfg(jobs, ['ok', 'ok'], lens=(5,)))
        live.append(rcfg(jobs, ['crc', 'ok', 'ok', 'eos'], lens=(5,)))
    kzreader.run_models(ck, [], dump=False, liveness_cfgs=live)
    # (b) structure-aware mutants decoded in child processes
    kzh = kzv.build_harness()
    d = os.path.join(kzv.BUILD, 'c03_%d' % os.getpid())
    tracef = d + '.ndjson'
    cmd = [kzh, 'c03', '-bases', str(400 if T else 40), '-big', str(6 if T else 1), '-per', str(0 if T else 70), '-seed', str(ck.seed),
           '-out', tracef, '-sum', d + '.sum', '-dir', d, '-par', str(kzv.NCPU), '-frames']
    if T:
        cmd.append('-thorough')
    try:
        rc, so, se, dt = kzv.run(cmd, timeout=6 * 3600 if T else 1500)
        if rc != 0:
            raise kzv.ToolFailure('c03 driver failed: ' + se[-1500:])
        summ = json.load(open(d + '.sum'))
        res = kzv.validate_trace('Trace_Total', tracef, timeout=1800)
        if res.error or res.violated:
            raise kzv.ToolFailure('Trace_Total failed: %s %s\n%s' % (res.error, res.violated, res.out[-1500:]))
        tr = kzv.read_ndjson(tracef)
        ck.cov['states'] += res.distinct
        ck.cov['transitions'] += res.generated
        seen = set()
        for e, pred in _violations_from(res.out, tr):
            if e['status'] == 'unknown':
                raise kzv.ToolFailure('child result missing for mutant %s' % e.get('mut'))
            desc = json.loads(e['desc'])
            key = (pred, e['base'].split(' ')[0], e['mut'].split('@')[0].split('=')[0])
            if key in seen:
                continue
            seen.add(key)
            # keep the failing stream with the replay file
            keep = None
            try:
                os.makedirs(kzv.REPLAYS, exist_ok=True)
                keep = os.path.join(kzv.REPLAYS, 'C03_mutant_%d_%d.knz' % (ck.seed, e['id']))
                shutil.copy(desc['file'], keep)
            except OSError:
                pass
            ck.violation({'kind': 'mutant', 'pred': pred, 'base': e['base'], 'mut': e['mut'], 'jobs': e['jobs'], 'ms': e['ms'],
                          'stderr': (e.get('stderr') or '')[:200]},
                         {'cmd': 'child-decode', 'stream_file': keep, 'jobs': e['jobs'], 'bound_ms': e['bound'], 'event': {k: v for k, v in e.items() if k != 'desc'}},
                         name='mutant')
        ck.cov['evaluations'] += summ['runs']
        ck.cov['distinct_nontrivial'] += summ['distinct']
        ck.cov['traces_validated_against_impl'] += summ['runs']
        ck.cov['outcomes'] = summ['byMode']
        for s in summ['samples'][:3]:
            ck.sample({'mutant': s})
    finally:
        shutil.rmtree(d, ignore_errors=True)
        for f in (tracef, d + '.sum'):
            try:
                os.remove(f)
            except OSError:
                pass
    ck.cov['rule'] = ('containment design model-checked (KzHelpers: helper goroutines; KzReader: every call returns under failures, weak fairness); '
                      'then exploration: base streams over random chains / all codecs; mutants = KzFormat field catalogue (header fields with the '
                      'header checksum recomputed, every transform/entropy code, block length width and length, mode byte, skip flags, '
                      'pre-transform length, first 24 bytes of the codec data = per-codec headers such as BWT primary indexes, LZ/ROLZ/alphabet '
                      'headers) x {0, max, +-1, bit flips, random} + random bytes, truncation, splices, garbage; the short-frame family (every entropy '
                      'codec x checksum and every transform: the frame re-framed to every length from one byte to 20 bytes beyond its head, inside '
                      'a well-formed container); the multi-MiB inverse BWT regime; '
                      'each mutant decoded in a child process (jobs 1..8) under a watchdog; Trace_Total: exit by normal return within the bound. '
                      'non-trivial = distinct (base stream, mutation) other than identity')
    ck.assumptions += ['totality over all byte strings is explored, not decided', 'time bound per mutant: 45 s (60 s for 5 MiB BWT blocks) while valid decodes take milliseconds; a hang is re-run alone before it counts']


# ------------------------------------------------------------------------------------------------
LEVEL['C13'] = 'exploration'


def _seq_cfg(impl, n, deltas, outcomes, invs):
    mc = '---- MODULE MC_S ----\nEXTENDS KzSequence\nMCDeltas == {%s}\nMCOutcomes == {%s}\n====\n' % (deltas, outcomes)
    c = ('CONSTANTS\n N = %d\n L0 = 8\n Pad = 2\n Deltas <- MCDeltas\n Outcomes <- MCOutcomes\n Impl = "%s"\nSPECIFICATION Spec\n'
         'INVARIANTS %s\nCHECK_DEADLOCK FALSE\n') % (n, impl, invs)
    return mc, c


def sequence_models(ck, T):
    """KzSequence: the contract of a stage is sufficient (RoundTrip) and necessary (dirty decline corrupts)."""
    from concurrent.futures import ThreadPoolExecutor
    runs = [('fixed', 3, '0-2, 0, 1', '"apply", "decline"', 'FlagsRoundTrip FlagsMeaning RoundTrip', True),
            ('fixed', 4, '0-2, 0, 1', '"apply", "decline"', 'FlagsRoundTrip FlagsMeaning RoundTrip', True),
            ('fixed', 5, '0, 1', '"apply", "decline"', 'FlagsRoundTrip FlagsMeaning RoundTrip', True),
            ('fixed', 6 if not T else 8, '0, 1', '"apply", "decline"', 'FlagsRoundTrip FlagsMeaning RoundTrip', True),
            ('asis', 4, '0, 1', '"apply", "decline"', 'RoundTrip', False),
            ('fixed', 3, '0', '"apply", "decline", "dirty"', 'NoCorruption', False)]

    def one(r):
        mc, c = _seq_cfg(*r[:5])
        return kzv.tlc('MC_S', c, workers=4, timeout=3000, extra_files={'MC_S.tla': mc}, heap='3g')
    with ThreadPoolExecutor(max_workers=6) as ex:
        results = list(ex.map(one, runs))
    for r, res in zip(runs, results):
        if r[5]:
            ck.add_tlc(res, 'KzSequence %s N=%d deltas {%s}' % (r[0], r[1], r[2]))
            if not res.ok:
                raise kzv.ToolFailure('KzSequence fails its own check: ' + res.out[-2000:])
        else:
            ck.cov.setdefault('selftests', []).append({'cfg': r[:4], 'violated': res.violated})
            if not res.violated:
                raise kzv.ToolFailure('vacuity self-test of KzSequence did not fail: %s' % (r[:4],))


def C13(ck):
    T = thorough(ck)
    sequence_models(ck, T)
    kzh = kzv.build_harness()
    base = os.path.join(kzv.BUILD, 'tlc', 'xform_%d' % os.getpid())
    cmd = [kzh, 'xform', '-n', str(6000 if T else 700), '-seed', str(ck.seed), '-out', base + '.ndjson', '-sum', base + '.sum', '-par', str(kzv.NCPU)]
    if T:
        cmd.append('-thorough')
    rc, so, se, dt = kzv.run(cmd, timeout=4 * 3600)
    if rc != 0:
        raise kzv.ToolFailure('xform driver failed: ' + se[-1500:])
    summ = json.load(open(base + '.sum'))
    res = kzv.validate_trace('Trace_Transform', base + '.ndjson', timeout=1800)
    if res.error or res.violated:
        raise kzv.ToolFailure('Trace_Transform failed: %s %s\n%s' % (res.error, res.violated, res.out[-1500:]))
    tr = kzv.read_ndjson(base + '.ndjson')
    ck.cov['states'] += res.distinct
    ck.cov['transitions'] += res.generated
    seen = set()
    for e, pred in _violations_from(res.out, tr):
        key = (pred, e['t'], e['shape'])
        if key in seen:
            continue
        seen.add(key)
        ck.violation({'kind': 'stage', 'pred': pred, 't': e['t'], 'shape': e['shape'], 'size': e['size'], 'hint': e['hint'],
                      'detail': (e.get('fwdPanic') or e.get('invPanic') or e.get('inv') or '')[:160]},
                     {'cmd': 'xform', 'case': json.loads(e['desc']), 'event': {k: v for k, v in e.items() if k != 'desc'}}, name='stage')
    ck.cov['evaluations'] += summ['runs']
    ck.cov['distinct_nontrivial'] += summ['distinct']
    ck.cov['traces_validated_against_impl'] += summ['runs']
    ck.cov['outcomes'] = summ['byMode']
    ck.cov['driver_wall_s'] = round(dt, 1)
    ck.notes += summ.get('notes', [])
    for s in summ['samples'][:3]:
        ck.sample({'stage_case': s})
    ck.cov['rule'] = ('KzSequence.tla model-checked: for every vector of stage outcomes and length changes the inverse sequence restores the block in '
                      'the decoder buffers and the skip flags survive the mode byte, PROVIDED each stage honours the per-stage contract; the as-is '
                      'sequence and a dirty decline are shown to break it. Then every transform is run against that contract on real data: 19 transforms '
                      '(single instances built as the factory builds them, and chains through transform.New) x 19 data shapes x sizes 1..1 MiB '
                      '(4 MiB regime in thorough) x data type hints harvested from earlier stages x entropy context; forward into a buffer of exactly '
                      'MaxEncodedLen, inverse with a fresh instance into a buffer of the decompressor size; Trace_Transform.tla judges each event '
                      '(no fault, clean decline, output <= MaxEncodedLen, inverse restores). non-trivial = distinct (transform, shape, size, hint, entropy) with size > 16')
    ck.assumptions += ['exploration: inverse-pair correctness for all inputs is not decided']
    for f in (base + '.ndjson', base + '.sum'):
        os.remove(f)


# ------------------------------------------------------------------------------------------------
LEVEL['C12'] = 'exploration'


def _alphabet_header(ck, T):
    """KzAlphabet: EncodeAlphabet / DecodeAlphabet transcribed; every alphabet over 16 symbols model-checked (inverse, bit-exact
    consumption, increasing order, sizes); alphabets through the real functions judged by Trace_Alphabet (NM = 32)."""
    import re
    from concurrent.futures import ThreadPoolExecutor
    rnd = random.Random(ck.seed * 17 + 1)
    c = 'CONSTANTS\n NM = 2\n LB = 1\nSPECIFICATION Spec\nINVARIANTS Inverse Ordered Size\nCHECK_DEADLOCK FALSE\n'
    with ThreadPoolExecutor(max_workers=1) as ex:
        fut = ex.submit(kzv.tlc, 'KzAlphabet', c, 6, 1800, None, None, None, False, '3g')
        cases = [[], list(range(256))]
        for k in range(256):
            cases += [[k], list(range(k + 1)), list(range(k, 256))]
            if k > 0:
                cases.append([x for x in range(256) if x != k])
        for step in (2, 3, 7, 8, 9, 16, 31, 32, 33, 64, 255):
            for off in range(0, min(step, 9)):
                cases.append(list(range(off, 256, step)))
        for i in range(4000 if T else 600):
            dens = rnd.choice((0.01, 0.05, 0.3, 0.5, 0.9, 0.99))
            hi = rnd.choice((8, 16, 17, 64, 200, 249, 256))
            lo = rnd.randrange(0, hi)
            cases.append([x for x in range(lo, hi) if rnd.random() < dens])
        kzh = kzv.build_harness()
        base = os.path.join(kzv.BUILD, 'tlc', 'alpha_%d' % os.getpid())
        nchunks = 8
        chunks = [cases[i::nchunks] for i in range(nchunks)]

        def judge(i):
            cf, tf = '%s.%d.cases' % (base, i), '%s.%d.ndjson' % (base, i)
            with open(cf, 'w') as fh:
                for k, a in enumerate(chunks[i]):
                    fh.write(json.dumps({'alpha': a, 'pre': (k * 5 + i) % 64}) + '\n')
            rc, so, se, dt = kzv.run([kzh, 'alpha', cf, tf], timeout=600)
            if rc != 0:
                raise kzv.ToolFailure('alpha driver failed: ' + se[-1000:])
            res = kzv.validate_trace('Trace_Alphabet', tf, timeout=3000)
            if res.error or res.violated:
                raise kzv.ToolFailure('Trace_Alphabet failed: %s %s\n%s' % (res.error, res.violated, res.out[-1500:]))
            tr = kzv.read_ndjson(tf)
            v = [(tr[int(x) - 1], p) for x, p in re.findall(r'<<"VIOLATION_AT", (\d+), "([^"]+)">>', res.out)]
            d = len(re.findall(r'<<"DRIFT_AT", (\d+)>>', res.out))
            for f in (cf, tf):
                os.remove(f)
            return res, v, d
        with ThreadPoolExecutor(max_workers=nchunks) as ex2:
            outs = list(ex2.map(judge, range(nchunks)))
        res0 = fut.result()
    ck.add_tlc(res0, 'KzAlphabet NM=2 (all 65536 alphabets over 16 symbols)')
    if not res0.ok:
        raise kzv.ToolFailure('KzAlphabet fails its own check: ' + res0.out[-1500:])
    drift = 0
    for res, v, d in outs:
        ck.cov['states'] += res.distinct
        ck.cov['transitions'] += res.generated
        drift += d
        for e, pred in v[:3]:
            ck.violation({'kind': 'alphabet', 'pred': pred, 'alpha': e['alpha'][:24], 'n': len(e['alpha']), 'pre': e['pre'], 'err': e.get('encErr') or e.get('decErr')},
                         {'cmd': 'alpha', 'event': {k: (x if not isinstance(x, list) else x[:64]) for k, x in e.items()}}, name='alpha')
    ck.cov['evaluations'] += len(cases)
    ck.cov['traces_validated_against_impl'] += len(cases)
    ck.cov['distinct_nontrivial'] += len(set(tuple(a) for a in cases if 0 < len(a) < 256))
    ck.cov['alphabet_headers'] = {'real_calls': len(cases), 'drift_vs_transcription': drift}
    if drift:
        ck.notes.append('%d alphabet headers round-trip but differ bit-wise from KzAlphabet!Enc (drift, not a violation)' % drift)


def C12(ck):
    from concurrent.futures import ThreadPoolExecutor
    T = thorough(ck)
    # (a) framing model: the decoder's table equals the encoder's iff the scaled table sums to the scale
    rares = (0, 5, 36, 100, 200, 254) if T else (0, 5, 36, 200)
    hists = ['<<%s>>' % ','.join(['1'] * r + [str(b + i) for i in range(d)]) for r in rares for d in (1, 2, 3) for b in (10, 136, 1000)
             if 2 <= r + d <= 256]       # a table only exists when the number of symbols does not exceed the scale (>= 256)
    lens = '{0,1,31,32,33,16383,16384,16385,32767,32768,32769,40000,65536}'
    runs = []
    for codec, lr in (('ANS0', 8), ('ANS0', 12), ('RANGE', 8), ('RANGE', 12), ('HUFFMAN', 11)):
        runs.append(('fixed', codec, lr, 'SyncIffValid TablesAgree Covers', True))
    runs.append(('asis', 'RANGE', 8, 'TablesAgree', False))

    def one(r):
        mc = '---- MODULE MC_E ----\nEXTENDS KzEntropyFrame\nMCLens == %s\nMCHists == {%s}\n====\n' % (lens, ', '.join(hists))
        c = ('CONSTANTS\n Impl = "%s"\n Codec = "%s"\n Lens <- MCLens\n Hists <- MCHists\n LogRange = %d\nSPECIFICATION Spec\nINVARIANTS %s\n'
             'CHECK_DEADLOCK FALSE\n') % (r[0], r[1], r[2], r[3])
        return kzv.tlc('MC_E', c, workers=2, timeout=3000, extra_files={'MC_E.tla': mc}, heap='2g')
    with ThreadPoolExecutor(max_workers=6) as ex:
        results = list(ex.map(one, runs))
    for r, res in zip(runs, results):
        if r[4]:
            ck.add_tlc(res, 'KzEntropyFrame %s %s lr=%d' % r[:3])
            if not res.ok:
                raise kzv.ToolFailure('KzEntropyFrame fails its own check: ' + res.out[-2000:])
        else:
            ck.cov['selftest_asis'] = {'violated': res.violated}
            if not res.violated:
                raise kzv.ToolFailure('vacuity self-test: as-is tables always agree')
    _alphabet_header(ck, T)
    _chunk_header_fields(ck)
    # (b) the real codecs on the case space, judged by Trace_Entropy
    kzh = kzv.build_harness()
    base = os.path.join(kzv.BUILD, 'tlc', 'ent_%d' % os.getpid())
    cmd = [kzh, 'entropy', '-n', str(8000 if T else 900), '-seed', str(ck.seed), '-out', base + '.ndjson', '-sum', base + '.sum', '-par', str(kzv.NCPU)]
    if T:
        cmd.append('-thorough')
    rc, so, se, dt = kzv.run(cmd, timeout=5 * 3600)
    if rc != 0:
        raise kzv.ToolFailure('entropy driver failed: ' + se[-1500:])
    summ = json.load(open(base + '.sum'))
    res = kzv.validate_trace('Trace_Entropy', base + '.ndjson', timeout=1800)
    if res.error or res.violated:
        raise kzv.ToolFailure('Trace_Entropy failed: %s %s\n%s' % (res.error, res.violated, res.out[-1500:]))
    tr = kzv.read_ndjson(base + '.ndjson')
    ck.cov['states'] += res.distinct
    ck.cov['transitions'] += res.generated
    seen = set()
    for e, pred in _violations_from(res.out, tr):
        key = (pred, e['codec'], e['len'] if e['len'] < 64 else e['fam'], e.get('args', ''))
        if key in seen:
            continue
        seen.add(key)
        ck.violation({'kind': 'entropy', 'pred': pred, 'codec': e['codec'], 'len': e['len'], 'fam': e['fam'], 'args': e.get('args', ''), 'msg': e.get('msg', '')[:120],
                      'encBits': e['encBits'], 'decBits': e['decBits']},
                     {'cmd': 'entropy', 'case': json.loads(e['desc']), 'event': {k: v for k, v in e.items() if k != 'desc'}}, name='entropy')
    ck.cov['evaluations'] += summ['runs']
    ck.cov['distinct_nontrivial'] += summ['distinct']
    ck.cov['traces_validated_against_impl'] += summ['runs']
    ck.cov['per_codec'] = summ['byMode']
    for s in summ['samples'][:3]:
        ck.sample({'entropy_case': s})
    ck.cov['rule'] = ('KzEntropyFrame.tla (raw threshold, chunk loop, header carrying all frequencies but the first) model-checked: encoder and decoder '
                      'tables agree iff the scaled table sums to the scale (links C16 to C12); then the 9 real codecs over length classes '
                      '{0,1,..,31,32,33,63,64,65,...,chunk-1,chunk,chunk+1,2*chunk+7} and every residue chunk+0..40 of the internal chunk size (16 KiB / 32 KiB / 4 MiB) x data families (19 shapes, '
                      'alphabets of 1..256 symbols, r rare + d dominant symbols) x bit alignment of the block in the stream; a 64-bit sentinel follows '
                      'the block; Trace_Entropy.tla judges: decoded = original, bits read = bits written, sentinel intact. '
                      'non-trivial = distinct (codec, length, family, alignment) with length > 32')
    ck.assumptions += ['exploration: the arithmetic of the coders is not modelled']
    for f in (base + '.ndjson', base + '.sum'):
        os.remove(f)


# ------------------------------------------------------------------------------------------------
LEVEL['C10'] = 'other'


def build_kzref_ref():
    """The pinned reference snapshot (commit 76efab5) built as an executable reference model."""
    out = os.path.join(kzv.VERIF, '.build', 'bin', 'kzref-ref')
    refdir = os.path.join(kzv.VERIF, '.build', 'ref')
    if os.path.exists(out):
        # rebuild when the harness sources (data generator, front end) are newer than the executable
        newest = 0
        for root, _, files in os.walk(kzv.HARNESS):
            for f in files:
                if f.endswith('.go'):
                    newest = max(newest, os.path.getmtime(os.path.join(root, f)))
        if os.path.getmtime(out) >= newest:
            return out
    os.makedirs(refdir, exist_ok=True)
    if not os.path.isdir(os.path.join(refdir, 'kanzi-ref')):
        rc, so, se, dt = kzv.run(['tar', '-xzf', os.path.join(kzv.VERIF, 'reference', 'kanzi-v2-76efab5.tar.gz'), '-C', refdir])
        if rc != 0:
            raise kzv.ToolFailure('cannot unpack the reference snapshot: ' + se)
    mod = os.path.join(refdir, 'go.ref.mod')
    with open(mod, 'w') as fh:
        fh.write(open(os.path.join(kzv.HARNESS, 'go.mod')).read().replace('/repo/v2', os.path.join(refdir, 'kanzi-ref', 'v2')))
    open(os.path.join(refdir, 'go.ref.sum'), 'a').close()
    os.makedirs(os.path.dirname(out), exist_ok=True)
    rc, so, se, dt = kzv.run(['go', 'build', '-modfile=' + mod, '-o', out, './cmd/kzref'], timeout=900, env=kzv.goenv(), cwd=kzv.HARNESS)
    if rc != 0:
        raise kzv.ToolFailure('cannot build the reference snapshot: ' + se[-2000:])
    return out


def C10(ck):
    import shutil
    T = thorough(ck)
    rnd = random.Random(ck.seed * 17 + 1)
    ref = build_kzref_ref()
    cur = kzv.build_harness(name='kzref-cur', pkg='./cmd/kzref')
    kzh = kzv.build_harness()
    base = os.path.join(kzv.BUILD, 'c10_%d' % os.getpid())
    os.makedirs(base, exist_ok=True)
    events = []
    try:
        # (a) the golden corpus, written by the reference encoder before any fix, decoded by the current decoder
        man = json.load(open(os.path.join(kzv.VERIF, 'golden', 'manifest.json')))
        files = [os.path.join(kzv.VERIF, 'golden', e['file']) for e in man['entries']]
        outs = []
        for jobs in ('1', '3'):
            rc, so, se, dt = kzv.run([cur, 'dec', jobs] + files, timeout=1800)
            if rc != 0:
                raise kzv.ToolFailure('current decoder front end failed: ' + se[-1500:])
            outs.append([json.loads(l) for l in so.splitlines() if l.startswith('{')])
        for k, e in enumerate(man['entries']):
            for o in outs:
                r = o[k]
                events.append({'ev': 'GOLDEN', 'file': e['file'], 'cfg': '%s&%s' % (e['transform'], e['entropy']), 'want': e['orig'],
                               'got': r.get('dig', 'error') if r.get('ok') else 'error: ' + r.get('err', '')[:80]})
        # (b) live differential against the executable reference: fresh (input, configuration) pairs
        n = 1500 if T else 220
        shapes = ['random', 'text', 'utf8', 'utf8wide', 'dna', 'dnalines', 'x86', 'wav', 'bmp', 'runs', 'smallalpha', 'skew', 'zeros', 'gzipmagic',
                  'mixed', 'ramp', 'numeric', 'html', 'sparse', 'exe', 'manual', 'manual', 'utf8cjk', 'crlfsplit', 'magictext']
        reqs = []
        for i in range(n):
            k = rnd.randrange(4)
            if k == 0:
                t, e = rnd.choice(PRESETS).split('&')
            elif k == 1:
                t, e = rnd.choice(T_NAMES), rnd.choice(E_NAMES)
            else:
                t, e = '+'.join(rnd.choice(T_NAMES) for _ in range(rnd.randint(1, 4))), rnd.choice(E_NAMES)
            size = rnd.choice([0, 1, 100, 5000, 20000, 70000, 150000])
            if e in ('CM', 'TPAQ', 'TPAQX'):
                size = min(size, 20000)
            size += rnd.randrange(50)
            reqs.append({'transform': t, 'entropy': e, 'block': rnd.choice([1024, 4096, 16384, 65536, 262144]), 'jobs': rnd.choice([1, 2, 4]),
                         'ck': rnd.choice([0, 32, 64]), 'hint': rnd.choice([-1, 0, size]), 'shape': rnd.choice(shapes), 'seed': ck.seed * 100000 + i,
                         'size': size, 'out': os.path.join(base, 'l%05d.knz' % i)})
        # (b2) size boundaries: format constants are often thresholds on the block length (chunk counts, minimum lengths, raw-copy
        # limits): every transform and every entropy codec on a last block of exactly s bytes for s around the powers of two
        bsizes = [s + d for s in (16, 32, 64, 128, 256, 512, 1024, 4096, 16384, 65536) for d in (-1, 0, 1)]
        if T:
            bsizes += [s + d for s in (8, 48, 96, 2048, 8192, 32768, 131072) for d in (-1, 0, 1)]
        i = len(reqs)
        for bi, s in enumerate(bsizes):
            for ti, t in enumerate(T_NAMES + ['BWT+RANK+ZRLT', 'TEXT+UTF', 'RLT+LZ']):
                lead = [0, 2][(bi + ti) % 2]
                block = 262144 if lead == 0 else 1024 * ((s + 1023) // 1024 + (ti % 2))
                e = E_NAMES[(bi + ti) % len(E_NAMES)]
                if e in ('CM', 'TPAQ', 'TPAQX') and s > 20000:
                    e = 'ANS0'
                size = lead * block + s
                shape = SHAPE_FOR.get(t.split('+')[0], 'text')
                reqs.append({'transform': t, 'entropy': e, 'block': block, 'jobs': [1, 2, 4][(bi + ti) % 3], 'ck': [0, 32, 64][(bi + ti) % 3],
                             'hint': [-1, size][ti % 2], 'shape': shape, 'seed': ck.seed * 100000 + i, 'size': size,
                             'out': os.path.join(base, 'l%05d.knz' % i)})
                i += 1
        # (b3) blocks larger than the internal chunk of the entropy codecs (4 MiB for FPAQ / ANS1, 16 / 32 KiB for the others): state
        # carried from one chunk to the next (contexts, tables) is part of the format
        for ei, e in enumerate(E_NAMES):
            if e in ('CM', 'TPAQ', 'TPAQX') and not T:
                continue
            for si, shape in enumerate(('text', 'skew')):
                size = (4 << 20) + 100001 + 16 * ei + si
                reqs.append({'transform': 'NONE', 'entropy': e, 'block': 8 << 20, 'jobs': 1, 'ck': [0, 32][si], 'hint': -1, 'shape': shape,
                             'seed': ck.seed * 100000 + i, 'size': size, 'out': os.path.join(base, 'l%05d.knz' % i)})
                i += 1
        # (b5) paginated text (form feeds / vertical tabs behind fresh words) through the text transform and the presets that contain it;
        # the bit-wise coders with the largest context tables (selected by the declared block size: 64 and 256 MiB) on a small input
        for t5, e5 in (('TEXT', 'HUFFMAN'), ('TEXT', 'FPAQ'), ('TEXT+UTF+PACK+MM+LZX', 'HUFFMAN'), ('TEXT+UTF+BWT+RANK+ZRLT', 'ANS0')):
            reqs.append({'transform': t5, 'entropy': e5, 'block': 65536, 'jobs': 1, 'ck': 32, 'hint': -1, 'shape': 'manual',
                         'seed': ck.seed * 100000 + i, 'size': 46000 + i % 7, 'out': os.path.join(base, 'l%05d.knz' % i)})
            i += 1
        for e5 in ('TPAQ', 'TPAQX'):
            for b5 in ((64 << 20, 256 << 20) if T else (256 << 20,)):
                reqs.append({'transform': 'NONE', 'entropy': e5, 'block': b5, 'jobs': 1, 'ck': 32, 'hint': -1, 'shape': 'text',
                             'seed': ck.seed * 100000 + i, 'size': 24000, 'out': os.path.join(base, 'l%05d.knz' % i)})
                i += 1
        # (b4) dictionaries of the text transform that fill up: word lists of several hundred thousand distinct words in one block
        for si, (size, block) in enumerate([(3600000, 4 << 20), (5600000, 8 << 20)] if T else [(3600000, 4 << 20)]):
            for e in ('FPAQ', 'NONE', 'ANS0'):
                reqs.append({'transform': 'TEXT', 'entropy': e, 'block': block, 'jobs': 1, 'ck': 32, 'hint': -1, 'shape': 'wordlist',
                             'seed': ck.seed * 100000 + i, 'size': size, 'out': os.path.join(base, 'l%05d.knz' % i)})
                i += 1
        # (b6) executables of every recognised kind (x86 and AArch64 images with the code section at every alignment) through the EXE
        # transform and chains / codecs behind it: the meaning of the words it stores is part of the format
        for shape6 in ('elfarm:0', 'elfarm:4', 'elfarm:1', 'exe', 'x86'):
            for t6, e6 in (('EXE', 'NONE'), ('EXE+RLT', 'ANS0'), ('EXE+TEXT+UTF', 'HUFFMAN')):
                reqs.append({'transform': t6, 'entropy': e6, 'block': 1 << 20, 'jobs': 1, 'ck': rnd.choice([0, 32, 64]), 'hint': -1, 'shape': shape6,
                             'seed': ck.seed * 100000 + i, 'size': 160000 + rnd.randrange(5000), 'out': os.path.join(base, 'l%05d.knz' % i)})
                i += 1
        # the front ends take their work on the command line: batches small enough for the argument size limit
        enc = []
        for lo in range(0, len(reqs), 120):
            rc, so, se, dt = kzv.run([ref, 'enc', json.dumps(reqs[lo:lo + 120])], timeout=3600)
            if rc != 0:
                raise kzv.ToolFailure('reference encoder front end failed: ' + se[-1500:])
            enc += [json.loads(l) for l in so.splitlines() if l.startswith('{')]
        if len(enc) != len(reqs):
            raise kzv.ToolFailure('reference encoder front end: %d results for %d requests' % (len(enc), len(reqs)))
        okreq = [(r, e) for r, e in zip(reqs, enc) if e.get('ok')]
        lf = [r['out'] for r, e in okreq]
        d1, d2 = [], []
        curjobs = str(rnd.choice([1, 2, 4]))
        for lo in range(0, len(lf), 300):
            rc, so1, se, dt = kzv.run([ref, 'dec', '1'] + lf[lo:lo + 300], timeout=3600)
            rc2, so2, se2, dt2 = kzv.run([cur, 'dec', curjobs] + lf[lo:lo + 300], timeout=3600)
            if rc != 0 or rc2 != 0:
                raise kzv.ToolFailure('decoder front end failed: ' + se[-800:] + se2[-800:])
            d1 += [json.loads(l) for l in so1.splitlines() if l.startswith('{')]
            d2 += [json.loads(l) for l in so2.splitlines() if l.startswith('{')]
        if len(d1) != len(lf) or len(d2) != len(lf):
            raise kzv.ToolFailure('decoder front ends: %d / %d results for %d streams' % (len(d1), len(d2), len(lf)))
        nref = 0
        for (r, e), a, b in zip(okreq, d1, d2):
            refok = bool(a.get('ok')) and a.get('dig') == e['orig']
            nref += refok
            events.append({'ev': 'LIVE', 'cfg': '%s&%s B=%d ck=%d %s n=%d' % (r['transform'], r['entropy'], r['block'], r['ck'], r['shape'], r['size']),
                           'refok': refok, 'ref': a.get('dig', ''), 'curok': bool(b.get('ok')), 'cur': b.get('dig', ''), 'err': b.get('err', '')[:100], 'req': json.dumps(r)})
        # (c) container layout of streams written by the current encoder (KzFormat)
        tracef = os.path.join(base, 'trace.ndjson')
        rc, so, se, dt = kzv.run([kzh, 'fmt', '-n', str(1500 if T else 250), '-seed', str(ck.seed), '-out', tracef] + (['-thorough'] if T else []), timeout=3600)
        if rc != 0:
            raise kzv.ToolFailure('fmt driver failed: ' + se[-1500:])
        nfmt = int(so.strip() or 0)
        hashf = os.path.join(base, 'hash.ndjson')
        rc, so, se, dt = kzv.run([kzh, 'hash', '-max', str(4200 if T else 1200), '-n', str(2000 if T else 200), '-seed', str(ck.seed), '-out', hashf], timeout=3600)
        if rc != 0:
            raise kzv.ToolFailure('hash driver failed: ' + se[-1500:])
        nhash = int(so.strip() or 0)
        ck.cov['checksum_inputs'] = nhash
        nfmt += nhash
        with open(tracef, 'a') as fh:
            fh.write(open(hashf).read())
            for e in events:
                fh.write(json.dumps(e) + '\n')
        res = kzv.validate_trace('Trace_Format', tracef, timeout=1800)
        if res.error or res.violated:
            raise kzv.ToolFailure('Trace_Format failed: %s %s\n%s' % (res.error, res.violated, res.out[-1500:]))
        tr = kzv.read_ndjson(tracef)
        seen = set()
        for e, pred in _violations_from(res.out, tr):
            key = (pred, e.get('cfg', '')[:40])
            if key in seen:
                continue
            seen.add(key)
            keep = None
            if e['ev'] == 'LIVE':
                try:
                    os.makedirs(kzv.REPLAYS, exist_ok=True)
                    req = json.loads(e['req'])
                    keep = os.path.join(kzv.REPLAYS, 'C10_live_%d_%s' % (ck.seed, os.path.basename(req['out'])))
                    shutil.copy(req['out'], keep)
                except (OSError, ValueError):
                    pass
            ck.violation({'kind': e['ev'], 'pred': pred, 'cfg': e.get('cfg'), 'file': e.get('file'), 'got': e.get('got') or e.get('cur'), 'err': e.get('err')},
                         {'cmd': 'kzref dec', 'stream_file': keep or e.get('file'), 'event': {k: v for k, v in e.items() if k != 'req'}}, name='fmt')
        ck.cov['programs'] = len(events) + nfmt
        ck.cov['disagreements_checked'] = len(man['entries']) * 2 + nref
        ck.cov['evaluations'] += len(events) + nfmt
        ck.cov['distinct_nontrivial'] += len(man['entries']) + nref + nfmt
        ck.cov['traces_validated_against_impl'] += len(events) + nfmt
        ck.cov['states'] += res.distinct
        ck.cov['transitions'] += res.generated
        ck.cov['golden_streams'] = len(man['entries'])
        ck.cov['live_pairs'] = {'requested': n, 'reference_encodes': len(okreq), 'reference_round_trips': nref}
        ck.cov['container_streams'] = nfmt
        ck.sample({'GOLDEN': events[0]})
        lives = [e for e in events if e['ev'] == 'LIVE']
        if lives:
            ck.sample({'LIVE': {k: v for k, v in lives[0].items() if k != 'req'}})
        ck.sample({'HDR': tr[0]})
        ck.cov['explanation'] = ('differential replay against an executable reference: the pinned snapshot 76efab5 of kanzi-go (built from /verif/reference) is the '
                                 'reference model for everything inside the codecs that TLA+ cannot express (hash seeds, static dictionary, state tables, chunk sizes); '
                                 'the golden corpus archives its encoder output; the container layer is specified in KzFormat.tla and checked by TLC on streams of '
                                 'the current encoder parsed by an independent parser')
    finally:
        shutil.rmtree(base, ignore_errors=True)
    ck.cov['rule'] = ('golden: 128 streams written by the reference encoder (every transform, every entropy codec, checksum 0/32/64, the ten level presets, chains, '
                      'both BWT regimes, 8-stage chain) decoded with jobs 1 and 3, digest must equal the recorded one; live: random (input, configuration) pairs '
                      'encoded by the reference encoder (plus the size-boundary matrix and blocks larger than the internal chunks of every entropy codec), the current decoder must output what the reference decoder outputs; container: HDR/BLK/END events '
                      'judged by Trace_Format.tla against KzFormat.tla and the encoder hooks. non-trivial = golden stream, live pair on which the reference '
                      'round-trips, container stream')
    ck.assumptions += ['equivalence with the reference for ALL inputs is not decided', 'the reference snapshot builds offline with the same toolchain']


PRESETS = ["NONE&NONE", "LZX&NONE", "DNA+LZ&HUFFMAN", "TEXT+UTF+PACK+MM+LZX&HUFFMAN", "TEXT+UTF+EXE+PACK+MM+ROLZ&NONE", "TEXT+UTF+BWT+RANK+ZRLT&ANS0",
           "TEXT+UTF+BWT+SRT+ZRLT&FPAQ", "LZP+TEXT+UTF+BWT+LZP&CM", "EXE+RLT+TEXT+UTF+DNA&TPAQ", "EXE+RLT+TEXT+UTF+DNA&TPAQX"]


# ------------------------------------------------------------------------------------------------
LEVEL['C19'] = 'model_checking'


def C19(ck):
    import shutil, itertools
    import kzcli
    T = thorough(ck)
    rnd = random.Random(ck.seed * 23 + 7)
    # (a) KzCli: one file task with a crash in every state, every option combination
    from concurrent.futures import ThreadPoolExecutor
    clijobs = []
    for order, expect_ok in (('asis', True), ('unlinkfirst', False)):
        for rm, force, oe, sf in itertools.product(('TRUE', 'FALSE'), repeat=4):
            if sf == 'TRUE' and oe == 'FALSE':
                continue
            for chunks in ((1, 3) if T else (2,)):
                c = ('CONSTANTS\n Rm = %s\n Force = %s\n OutExists = %s\n SameFile = %s\n Chunks = %d\n Order = "%s"\nSPECIFICATION Spec\n'
                     'INVARIANTS CrashSafe NoClobber NeverWritesInput InputIntact ExitOK\n') % (rm, force, oe, sf, chunks, order)
                clijobs.append((order, rm, force, oe, sf, chunks, c))
    with ThreadPoolExecutor(max_workers=max(2, kzv.NCPU - 2)) as ex:
        clires = dict(zip([j[:6] for j in clijobs], ex.map(lambda j: kzv.tlc('KzCli', j[6], workers=1, timeout=600), clijobs)))
    for order, expect_ok in (('asis', True), ('unlinkfirst', False)):
        bad = 0
        for rm, force, oe, sf in itertools.product(('TRUE', 'FALSE'), repeat=4):
            if sf == 'TRUE' and oe == 'FALSE':
                continue
            for chunks in ((1, 3) if T else (2,)):
                res = clires[(order, rm, force, oe, sf, chunks)]
                if expect_ok:
                    ck.add_tlc(res, 'KzCli rm=%s force=%s outExists=%s sameFile=%s' % (rm, force, oe, sf))
                    if not res.ok:
                        raise kzv.ToolFailure('KzCli fails its own check: ' + res.out[-1500:])
                elif res.violated:
                    bad += 1
        if not expect_ok:
            ck.cov['selftest_unlinkfirst'] = {'configs_violating_CrashSafe': bad}
            if bad == 0:
                raise kzv.ToolFailure('vacuity self-test: removing the source first does not violate CrashSafe')
    # (a') the file worker pool of the tool (specification grown beyond the listed properties): the early-exit path of the
    # as-found code can send on a closed channel (observation F18 in DESIGN.md, reproduced on the real tool, not a C19 clause)
    for close, failing, expect_ok in (('never', '{}', True), ('never', '{2}', True), ('never', '{1, 3}', True), ('asis', '{}', True), ('asis', '{2}', False)):
        c = 'CONSTANTS\n NTasks = %d\n NWorkers = %d\n Failing = %s\n Close = "%s"\nSPECIFICATION Spec\nINVARIANTS NoSendOnClosed MainProgress\n' % (
            5 if T else 4, 3 if T else 2, failing, close)
        res = kzv.tlc('KzWorkerPool', c, workers=2, timeout=600)
        if expect_ok:
            ck.add_tlc(res, 'KzWorkerPool close=%s failing=%s' % (close, failing))
            if not res.ok:
                raise kzv.ToolFailure('KzWorkerPool fails its own check: ' + res.out[-1500:])
        else:
            ck.cov['worker_pool_asis'] = {'violated': res.violated, 'note': 'send on closed results channel after an early exit (F18, outside the listed properties)'}
            if not res.violated:
                raise kzv.ToolFailure('vacuity self-test: the as-found worker pool never sends on a closed channel')
    # output names in directory -> directory mode: KzPaths (every spelling of the input directory up to 7 (8) characters over
    # {t, s, ., /} that denotes t/s; the as-found slicing by string length violates NameOK: F21)
    mcp = ('---- MODULE MC_P ----\nEXTENDS KzPaths\nMCAlpha == {"t", "s", ".", "/"}\nMCDir == <<"t", "/", "s">>\n'
           'MCRels == {<<"f">>, <<"u", "/", "g">>, <<"a", "b">>, <<"c", "b">>}\n====\n')
    for impl in ('fixed', 'asis'):
        c = ('CONSTANTS\n Alphabet <- MCAlpha\n MaxLen = %d\n Dir <- MCDir\n Rels <- MCRels\n Impl = "%s"\nSPECIFICATION Spec\n'
             'INVARIANTS NameOK Injective\nCHECK_DEADLOCK FALSE\n') % (8 if T else 7, impl)
        res = kzv.tlc('MC_P', c, workers=6, timeout=1800, extra_files={'MC_P.tla': mcp}, heap='3g')
        if impl == 'fixed':
            ck.add_tlc(res, 'KzPaths (spellings of the input directory)')
            if not res.ok:
                raise kzv.ToolFailure('KzPaths fails its own check: ' + res.out[-1500:])
        else:
            ck.cov.setdefault('selftests', []).append({'cfg': 'KzPaths asis (F21)', 'violated': res.violated})
            if not res.violated:
                raise kzv.ToolFailure('vacuity self-test: the as-found output naming passes NameOK')
    # (b) the real tool
    root = os.path.join(kzv.BUILD, 'c19_%d' % os.getpid())
    cli = kzcli.Cli(ck, root)
    try:
        k = 0
        for lvl in (range(10) if T else (0, 1, 3, 5, 8)):
            cli.inplace_rm(rnd, k, ['-l', str(lvl)] + kzcli.extra_opts(rnd), 'level %d' % lvl)
            k += 1
        for i in range(40 if T else 6):
            o = kzcli.level_opts(rnd) + kzcli.extra_opts(rnd)
            cli.inplace_rm(rnd, k, o, ' '.join(o))
            k += 1
        for i in range(20 if T else 4):
            o = kzcli.level_opts(rnd) + kzcli.extra_opts(rnd)
            cli.to_dir(rnd, k, o, ' '.join(o), force=(i % 2 == 0))
            k += 1
        # degenerate trees (single file below a sub-directory, nothing at the top level, same name in two directories, ...)
        for si, shape in enumerate(kzcli.TREE_SHAPES[1:]):
            for rep in range(2 if T else 1):
                o = kzcli.level_opts(rnd) + kzcli.extra_opts(rnd)
                cli.to_dir(rnd, k, o, ' '.join(o), force=((si + rep) % 2 == 0), shape=shape)
                k += 1
                if T or si % 2 == 0:
                    cli.inplace_rm(rnd, k, o, ' '.join(o), shape=shape)
                    k += 1
        for i in range(4 if T else 1):
            o = kzcli.level_opts(rnd) + ['-v', '0']
            cli.path_forms(rnd, k, o, ' '.join(o))
            k += 1
            cli.path_forms(rnd, k, o, ' '.join(o) + ' names that begin with dots', shape='dotnames')
            k += 1
        # files larger than a block at the block sizes of the high levels (8 and 16 MiB): explicit fast pipelines in the quick tier,
        # the real levels 5..9 in the thorough tier
        bigs = [(['-t', 'BWT', '-e', 'NONE', '-b', '16m', '-j', '2', '-v', '0'], [9 << 20, (5 << 20) + 3]),
                (['-t', 'LZX', '-e', 'HUFFMAN', '-b', '8m', '-j', '4', '-v', '0'], [(17 << 20) + 1])]
        if T:
            bigs += [(['-l', str(l), '-j', '4', '-v', '0'], [9 << 20, (4 << 20) + 5]) for l in (5, 6, 7)]
        for o, sizes in bigs:
            cli.big_files(rnd, k, o, ' '.join(o), sizes)
            k += 1
        for i in range(20 if T else 4):
            o = kzcli.level_opts(rnd) + kzcli.extra_opts(rnd)
            cli.single_and_pipes(rnd, k, o, ' '.join(o))
            k += 1
        for i in range(12 if T else 3):
            o = kzcli.level_opts(rnd) + ['-j', str(rnd.choice([1, 2, 4]))]
            cli.stdout_rm(rnd, k, o, ' '.join(o))
            k += 1
        for i in range(6 if T else 2):
            cli.safety(rnd, k, kzcli.level_opts(rnd) + ['-v', '0'])
            k += 1
        for i in range(120 if T else 10):
            o = rnd.choice([['-l', '1'], ['-l', '2'], ['-l', '3'], ['-l', '5'], ['-t', 'NONE', '-e', 'NONE']]) + ['-v', '0']
            cli.kill(rnd, k, o, 'SIGKILL during --rm ' + ' '.join(o))
            k += 1
        tracef = os.path.join(root, 'trace.ndjson')
        with open(tracef, 'w') as fh:
            for e in cli.events:
                fh.write(json.dumps(e) + '\n')
        res = kzv.validate_trace('Trace_Cli', tracef, timeout=1800)
        if res.error or res.violated:
            raise kzv.ToolFailure('Trace_Cli failed: %s %s\n%s' % (res.error, res.violated, res.out[-1500:]))
        ck.cov['states'] += res.distinct
        ck.cov['transitions'] += res.generated
        seen = set()
        for e, pred in _violations_from(res.out, cli.events):
            key = (pred, e.get('desc', '')[:30])
            if key in seen:
                continue
            seen.add(key)
            ck.violation({'kind': e['ev'], 'pred': pred, 'desc': e.get('desc'), 'detail': (e.get('detail') or e.get('path') or '')[:200],
                          'exitc': e.get('exitc'), 'exitd': e.get('exitd')}, {'cmd': 'cli', 'event': e}, name='cli')
        nsys = len([e for e in cli.events if e['ev'] == 'SYS'])
        ck.cov['evaluations'] += cli.runs
        ck.cov['distinct_nontrivial'] += len([e for e in cli.events if e['ev'] in ('TREE', 'KILL', 'CLOBBER', 'SELFIN')])
        ck.cov['traces_validated_against_impl'] += len([e for e in cli.events if e['ev'] == 'RUN'])
        ck.cov['syscall_events'] = nsys
        ck.cov['kill_points'] = nsys
        ck.sample({'TREE': [e for e in cli.events if e['ev'] == 'TREE'][0]})
        syss = [e for e in cli.events if e['ev'] == 'SYS']
        if syss:
            ck.sample({'SYS': syss[:3]})
    finally:
        shutil.rmtree(root, ignore_errors=True)
    ck.cov['rule'] = ('KzCli.tla (one file task, crash in every state, all combinations of --rm / -f / existing output / output = input) model-checked: '
                      'CrashSafe, NoClobber, NeverWritesInput, InputIntact, ExitOK; the wrong order (source removed first) violates CrashSafe. The real '
                      'tool (built from the working tree): random trees (empty files, nested directories, dot files, names with spaces) compressed and '
                      'decompressed in place with --rm under strace for levels 0..9 and explicit -t/-e/-b/-j/-x/-s options, into other directories with -f, '
                      'single files and stdin/stdout; every prefix of the syscall log is a kill point: Trace_Cli.tla requires that a source is only removed '
                      'once its output has received all its bytes, that inputs are never opened for writing, that existing outputs survive without -f; '
                      'plus real SIGKILLs at random moments of --rm runs. non-trivial = tree round trip, kill, clobber or self-input scenario')
    ck.assumptions += ['process kill, not power loss: data handed to the kernel by write() counts as written',
                       'output directories given with -o exist before the run (the tool requires it)']


# ------------------------------------------------------------------------------------------------
LEVEL['C18'] = 'other'


def C18(ck):
    import glob, re, shutil
    T = thorough(ck)
    # (a) ownership discipline on the single-instance specs (instances share no variable: non-interference is by construction)
    wcfgs = [wcfg(j, 2 * j + 1, lens=(3, 2 * j + 1)) for j in ((2, 3, 4) if T else (2, 3))] + [wcfg(3, 7, lens=(3,), flush='emit', fail_blocks=[2])]
    rcfgs = [rcfg(j, clean(j + 2), lens=(3, 7)) for j in ((2, 3, 4) if T else (2, 3))] + [rcfg(3, ['ok', 'crc', 'ok', 'ok', 'eos'], lens=(3,))]
    # block ranges: a batch that starts with skipped blocks hands its buffers over in a different slot order - the one place where
    # the ownership of a block buffer moves between slots; the batches that follow must still give every task a buffer of its own
    rcfgs += [rcfg(j, clean(2 * j + 3), lens=(3,), fr=2, to=0) for j in ((2, 3, 4) if T else (2, 3))]
    wscen = kzwriter.run_models(ck, wcfgs, max_paths=None if T else 120)
    rscen = kzreader.run_models(ck, rcfgs, max_paths=None if T else 120)
    # (b) K pipelines concurrently, no race detector (fast, many)
    kzh = kzv.build_harness()
    base = os.path.join(kzv.BUILD, 'c18_%d' % os.getpid())
    os.makedirs(base, exist_ok=True)
    try:
        tracef = os.path.join(base, 'multi.ndjson')
        rc, so, se, dt = kzv.run([kzh, 'multi', '-n', str(40 if T else 16), '-rounds', str(10 if T else 2), '-seed', str(ck.seed), '-out', tracef], timeout=7200)
        if rc != 0:
            raise kzv.ToolFailure('multi driver failed: ' + se[-1500:])
        n1 = int(so.strip() or 0)
        # (c) the same under the race detector, plus the model schedules replayed under the race detector
        kzr = kzv.build_harness(race=True)
        logp = os.path.join(base, 'race')
        env = dict(os.environ, GORACE='halt_on_error=0 exitcode=0 log_path=%s' % logp)
        tracer = os.path.join(base, 'multi_race.ndjson')
        p = kzv.subprocess.run([kzr, 'multi', '-n', str(20 if T else 6), '-rounds', str(4 if T else 1), '-seed', str(ck.seed + 1), '-scale', '50', '-out', tracer],
                               env=env, stdout=kzv.subprocess.PIPE, stderr=kzv.subprocess.PIPE, timeout=7200)
        if p.returncode != 0:
            raise kzv.ToolFailure('multi driver (race build) failed: ' + p.stderr.decode()[-1500:])
        n2 = int(p.stdout.decode().strip() or 0)
        nrep = 0
        for scen, cmd, realB in ((rscen, 'replay-reader', '1024'), (wscen, 'replay-writer', '2048')):
            allscen = os.path.join(base, cmd + '.ndjson')
            with open(allscen, 'w') as out:
                for f in scen:
                    with open(f) as fh:
                        shutil.copyfileobj(fh, out)
            p = kzv.subprocess.run([kzr, cmd, allscen, allscen + '.res', realB, str(ck.seed), '8'], env=env, stdout=kzv.subprocess.PIPE, stderr=kzv.subprocess.PIPE, timeout=7200)
            if p.returncode != 0:
                raise kzv.ToolFailure('%s (race build) failed: %s' % (cmd, p.stderr.decode()[-1500:]))
            res = kzv.read_ndjson(allscen + '.res')
            nrep += len(res)
            for r in res:
                if r['status'] == 'violation':
                    ck.violation({'kind': 'replay-race', 'pred': r.get('pred'), 'detail': r.get('detail'), 'sid': r['sid']}, {'cmd': cmd, 'result': r}, name='race')
        # judge the MULTI events
        with open(tracef, 'a') as fh:
            fh.write(open(tracer).read())
        res = kzv.validate_trace('Trace_Multi', tracef, timeout=1800)
        if res.error or res.violated:
            raise kzv.ToolFailure('Trace_Multi failed: %s %s\n%s' % (res.error, res.violated, res.out[-1500:]))
        tr = kzv.read_ndjson(tracef)
        ck.cov['states'] += res.distinct
        ck.cov['transitions'] += res.generated
        for e, pred in _violations_from(res.out, tr)[:10]:
            ck.violation({'kind': 'multi', 'pred': pred, 'cfg': e['cfg']}, {'cmd': 'multi', 'event': e}, name='multi')
        # race reports
        races = []
        for f in glob.glob(logp + '*'):
            txt = open(f, errors='replace').read()
            for rep in txt.split('==================')[1:]:
                if 'DATA RACE' in rep:
                    races.append(rep.strip())
        seen = set()
        for rep in races:
            frames = [l.strip() for l in rep.splitlines() if 'kanzi-go/v2' in l or '/repo/v2' in l or '/v2/' in l]
            key = tuple(frames[:2])
            if key in seen:
                continue
            seen.add(key)
            ck.violation({'kind': 'race', 'pred': 'C18_data_race', 'frames': frames[:4]}, {'cmd': 'multi/replay under -race', 'report': rep[:4000]}, name='race')
        ck.cov['evaluations'] += n1 + n2 + nrep
        ck.cov['distinct_nontrivial'] += n1 + n2 + nrep
        ck.cov['traces_validated_against_impl'] += n1 + n2 + nrep
        ck.cov['pipelines_plain'] = n1
        ck.cov['pipelines_race_build'] = n2
        ck.cov['model_schedules_replayed_under_race_detector'] = nrep
        ck.cov['race_reports'] = len(races)
        ck.sample({'MULTI': tr[0]})
        ck.cov['explanation'] = ('the Go race detector observes the memory accesses (TLA+ cannot); the specification supplies the ownership discipline '
                                 '(W_Ownership / R_Ownership model-checked on KzWriter / KzReader) and the schedules: the edge cover of the state graphs is '
                                 'replayed through the gates in a -race build, and K concurrent pipelines over all presets and random chains run with '
                                 'perturbed schedules, each compared with its isolated run (Trace_Multi.tla)')
    finally:
        shutil.rmtree(base, ignore_errors=True)
    ck.cov['rule'] = ('ownership invariants model-checked; per round: every transform and every entropy codec twice on data that activates it (several blocks, jobs 2..8 on both sides) + the ten level presets + random chains, run alone then all '
                      'together with yields/sleeps injected at the hooks: stream and decoded output must be identical (Trace_Multi); the same plus the model '
                      'schedules in a -race build: any race report whose stack is in the repository is a violation')
    ck.assumptions += ['absence of a race report is not a proof of race freedom: only executed schedules are observed']


# ------------------------------------------------------------------------------------------------
LEVEL['C14'] = 'model_checking'


def _bitout_cfg(maxbits, bitsops, arrops, fail='{}', buf=64, closeimpl='fixed', partial='{}', partialimpl='latch',
                invs='Image Closed Counter CleanCur InBuffer PanicOnlyOnFault SinkPrefix'):
    mc = '---- MODULE MC_B ----\nEXTENDS KzBitOut\nMCBits == {%s}\nMCArr == {%s}\nMCFail == %s\nMCPartial == %s\n====\n' % (bitsops, arrops, fail, partial)
    c = ('CONSTANTS\n BUF = %d\n MaxBits = %d\n BitsOps <- MCBits\n ArrOps <- MCArr\n FailFlush <- MCFail\n PartialFlush <- MCPartial\n PartialImpl = "%s"\n'
         ' CloseImpl = "%s"\nSPECIFICATION Spec\nINVARIANTS %s\nCHECK_DEADLOCK FALSE\n') % (buf, maxbits, partialimpl, closeimpl, invs)
    return mc, c


def _bitin_cfg(impl, chunks, bitsops, arrops, n=96, buf=64, errat=-1, invs='InOrder NoSpuriousEOF ErrOnlyWhenNeeded Counter OverreadFails', over=0):
    mc = '---- MODULE MC_I ----\nEXTENDS KzBitIn\nMCChunks == {%s}\nMCBits == {%s}\nMCArr == {%s}\nMCErrAt == %s\n====\n' % (
        chunks, bitsops, arrops, ('0-1' if errat < 0 else str(errat)))
    c = ('CONSTANTS\n N = %d\n BUF = %d\n Chunks <- MCChunks\n BitsOps <- MCBits\n ArrOps <- MCArr\n ErrAt <- MCErrAt\n Over = %d\n Impl = "%s"\n'
         'SPECIFICATION Spec\nINVARIANTS %s\nCHECK_DEADLOCK FALSE\n') % (n, buf, over, impl, invs)
    return mc, c


def _bit_programs(dot, rng, kind, max_paths):
    """Operation programs from the edge cover of a KzBitOut / KzBitIn state graph."""
    import re
    nodes, edges, inits = kzv.parse_dot(dot)
    paths = kzv.edge_cover_paths(nodes, edges, inits, max_len=200, rng=rng, max_paths=max_paths)
    progs = []
    for path in paths:
        ops, chunks = [], []
        for k in path:
            lbl = edges[k][2]
            m = re.match(r'(\w+?)Op(?:\((\d+)(?:,\s*(\d+))?\))?$', lbl)
            if not m:
                continue
            name, a, b = m.group(1), m.group(2), m.group(3)
            if name in ('WriteBits', 'ReadBits'):
                ops.append({'op': 'bits', 'n': int(a)})
            elif name in ('WriteBit', 'ReadBit'):
                ops.append({'op': 'bit', 'n': 1})
            elif name in ('WriteArray', 'ReadArray'):
                ops.append({'op': 'array', 'n': int(a)})
            if kind == 'in':
                c = int(b) if b else int(a)
                if c not in chunks:
                    chunks.append(c)
        if ops:
            progs.append((ops, chunks))
    return progs, len(edges), len(nodes)


def C14(ck):
    from concurrent.futures import ThreadPoolExecutor
    T = thorough(ck)
    rng = random.Random(ck.seed * 29 + 3)
    out_runs = [(_bitout_cfg(700 if T else 600, '1,7,8,33,64', '8,64,65,200,256,257,520'), True, 'out A'),
                (_bitout_cfg(600, '1,3,63', '0,1,9,63,448,456,512,1000' if T else '0,9,63,448,456,512'), True, 'out B'),
                (_bitout_cfg(560, '8,64', '64,256,448', fail='{1}'), False, 'out flush 1 fails'),
                (_bitout_cfg(560, '3,8', '64,300,456', fail='{2}'), False, 'out flush 2 fails'),
                # the sink accepts a part of a flush and reports an error (flush of a write, flush of Close), Close retried
                (_bitout_cfg(300, '3,8', '64,200', fail='{1}', partial='{1}'), False, 'out partial write at flush 1'),
                (_bitout_cfg(560, '8,64', '64,448', fail='{2}', partial='{2}'), False, 'out partial write at flush 2'),
                (_bitout_cfg(200, '3,8', '64', fail='{1, 2}', partial='{2}'), False, 'out flush 1 fails, partial write at flush 2')]
    in_runs = [(_bitin_cfg('fixed', '1,7,8,13,64', '3,8,33', '8,64,128,300'), True, 'in A'),
               (_bitin_cfg('fixed', '5,9,64', '1,7,64', '0,63,256,520' if T else '63,256,520', n=120), True, 'in B'),
               (_bitin_cfg('fixed', '7,64', '3,8', '64,128', errat=40), False, 'in source error at 40'),
               (_bitin_cfg('fixed', '1,64', '3,8', '64,300', errat=70), False, 'in source error at 70'),
               # requests beyond the end of the source (truncated stream, forged lengths): every operation kind, every size of the last partial word
               (_bitin_cfg('fixed', '1,7,64', '3,8,33,64', '8,64,128,300', n=27, over=200), False, 'in over-read N=27'),
               (_bitin_cfg('fixed', '5,64', '1,8,33,64', '8,64,72,300', n=24, over=130), False, 'in over-read N=24'),
               (_bitin_cfg('fixed', '3,64', '7,8,57,64', '64,128,200', n=29, over=130), False, 'in over-read N=29')]
    selftests = [(_bitin_cfg('nocheck', '1,7,64', '3,8,33,64', '8,64,128,300', n=27, over=200, invs='OverreadFails'), 'asis-like ReadBits that trusts pull: over-read returns phantom bits'),
                 (_bitin_cfg('asis', '1,7,8,64', '3,8', '64,128,300'), 'asis short reads: spurious end of data'),
                 (_bitin_cfg('asis', '13,64', '3,8', '64,128,300'), 'asis short reads: bits out of order')]
    out_selftests = [(_bitout_cfg(200, '3,8', '64', fail='{1}', closeimpl='asis'), 'asis failed Close keeps the padding subtracted from the counter (F19)'),
                     (_bitout_cfg(200, '3,8', '64', fail='{1}', partial='{1}', partialimpl='resend', invs='SinkPrefix'),
                      'asis (before F13) partial write then retried Close: the buffer is sent again'),
                     (_bitout_cfg(200, '3,8', '64', fail='{1}', partial='{1}', partialimpl='resume', invs='SinkPrefix Counter'),
                      'asis-like resume after a partial write while Close restores its snapshot (seed C17c)')]

    def one(job):
        (mc, c), dump, label, mod = job
        d = kzv.scratch('bits')
        args = ['-dump', 'dot,actionlabels', os.path.join(d, 'g.dot')] if dump else []
        return kzv.tlc(mod, c, workers=2, timeout=3000, extra_files={mod + '.tla': mc}, args=args, workdir=d, heap='4g'), d
    jobs = ([(r[0], r[1], r[2], 'MC_B') for r in out_runs] + [(r[0], r[1], r[2], 'MC_I') for r in in_runs] + [(s[0], False, s[1], 'MC_I') for s in selftests]
            + [(s[0], False, s[1], 'MC_B') for s in out_selftests])
    with ThreadPoolExecutor(max_workers=6) as ex:
        results = list(ex.map(one, jobs))
    progs = []
    import shutil
    for job, (res, d) in zip(jobs, results):
        label = job[2]
        if label.startswith('asis'):
            ck.cov.setdefault('selftests', []).append({'cfg': label, 'violated': res.violated})
            if not res.violated:
                raise kzv.ToolFailure('vacuity self-test did not fail: ' + label)
        else:
            ck.add_tlc(res, 'KzBit' + label)
            if not res.ok:
                raise kzv.ToolFailure('bit stream spec fails its own check (%s): %s' % (label, res.out[-2000:]))
            if job[1]:
                kind = 'in' if job[3] == 'MC_I' else 'out'
                pr, ne, nn = _bit_programs(os.path.join(d, 'g.dot'), rng, kind, None if T else 400)
                ck.cov['model_edges'] = ck.cov.get('model_edges', 0) + ne
                for ops, chunks in pr:
                    for realbuf in ((1024, 2048, 16384) if T else (1024,)):
                        progs.append({'ops': ops, 'bufW': realbuf, 'bufR': realbuf, 'fill': realbuf - 64, 'chunks': chunks or rng.choice([[], [1], [7], [13, 5, 64]]),
                                      'src': 'model'})
                    progs.append({'ops': ops, 'bufW': 1024, 'bufR': 1024, 'fill': 0, 'chunks': chunks or [], 'src': 'model'})
        shutil.rmtree(d, ignore_errors=True)
    _bits_run(ck, progs, 30000 if T else 3000, T, ('C14_',))
    ck.cov['rule'] = ('KzBitOut.tla and KzBitIn.tla (the real paths: accumulator, buffer thresholds, aligned / unaligned bulk paths, partial words, refill, '
                      'deferred error, Close) model-checked against the bit vector reference for a 64-byte buffer over operation menus around the 8/32-byte '
                      'and 64/256-bit thresholds, all source chunkings, failing sink / source, sinks that accept a part of a flush before they fail (with Close retried: SinkPrefix), requests beyond the end of the source (OverreadFails); the edge cover of each graph becomes programs executed on the '
                      'real streams (started so that the first buffer boundary falls where the model has it) and random long programs for buffers 1 KiB..256 KiB '
                      'and chunked sources; every operation is compared with a bit vector; Trace_Bits.tla judges counters (prefix sums of the operation sizes), '
                      'byte image, values read, refusal after Close. non-trivial = distinct program with >= 2 operations')


def _bits_run(ck, progs, nrandom, T, prefixes):
    """Execute bit-level programs (model programs + random ones) on the real bit streams; Trace_Bits judges every program.
    Only predicates starting with one of `prefixes` are verdicts of the calling check (the others belong to another property's check)."""
    kzh = kzv.build_harness()
    base = os.path.join(kzv.BUILD, 'tlc', 'bits_%s_%d' % (ck.pid, os.getpid()))
    with open(base + '.progs', 'w') as fh:
        for p in progs:
            fh.write(json.dumps(p) + '\n')
    cmd = [kzh, 'bits', '-n', str(nrandom), '-seed', str(ck.seed), '-progs', base + '.progs', '-out', base + '.ndjson', '-sum', base + '.sum']
    if T:
        cmd.append('-thorough')
    rc, so, se, dt = kzv.run(cmd, timeout=3 * 3600)
    if rc != 0:
        raise kzv.ToolFailure('bits driver failed: ' + se[-1500:])
    summ = json.load(open(base + '.sum'))
    res = kzv.validate_trace('Trace_Bits', base + '.ndjson', timeout=3000)
    if res.error or res.violated:
        raise kzv.ToolFailure('Trace_Bits failed: %s %s\n%s' % (res.error, res.violated, res.out[-1500:]))
    tr = kzv.read_ndjson(base + '.ndjson')
    ck.cov['states'] += res.distinct
    ck.cov['transitions'] += res.generated
    seen = set()
    for e, pred in _violations_from(res.out, tr):
        if not pred.startswith(tuple(prefixes)):
            note = ('bit-level lead %s (a read beyond the end of the data returned instead of failing): not a verdict of this property; '
                    'its stream-level consequences are decided by C03 (short frames) and C09 (cuts)' % pred)
            if note not in ck.notes:
                ck.notes.append(note)
            continue
        key = (pred, e['src'], e['firstBad'][:30])
        if key in seen or len(seen) > 12:
            continue
        seen.add(key)
        ck.violation({'kind': 'bits', 'pred': pred, 'src': e['src'], 'firstBad': e['firstBad'], 'wPanic': e['wPanic'], 'rPanic': e['rPanic'],
                      'bufW': e['bufW'], 'bufR': e['bufR']}, {'cmd': 'bits', 'program': json.loads(e['desc'])}, name='bits')
    ck.cov['evaluations'] += summ['runs']
    ck.cov['distinct_nontrivial'] += summ['distinct']
    ck.cov['traces_validated_against_impl'] += summ['runs']
    ck.cov['programs_by_origin'] = summ['byMode']
    for s in summ['samples'][:2]:
        ck.sample({'program': {k: (v if k != 'ops' else v[:12]) for k, v in s.items()}})
    for f in (base + '.progs', base + '.ndjson', base + '.sum'):
        os.remove(f)


# ------------------------------------------------------------------------------------------------
def replay_file(pid, path):
    """Re-execute the single case stored in a replay file on the current tree and judge it with the same trace spec.
    Exit 1 (with a VIOLATION line) if the violation reproduces, 0 if it does not, 2 if the file cannot be replayed."""
    import tempfile, re
    d = json.load(open(path))
    rp = d.get('replay') or {}
    cmd = rp.get('cmd', '')
    kzh = kzv.build_harness()
    tmp = tempfile.mkdtemp(prefix='replay.', dir=os.path.join(kzv.BUILD, 'tlc'))
    bad = None

    def judge(spec, tracef):
        res = kzv.validate_trace(spec, tracef, timeout=600)
        if res.error or res.violated:
            raise kzv.ToolFailure('trace spec failed: %s %s' % (res.error, res.violated))
        hits = re.findall(r'<<"VIOLATION_AT", (\d+), "([^"]*)">>', res.out)
        return hits[0][1] if hits else None
    try:
        if cmd in ('replay-reader', 'replay-writer'):
            sf = os.path.join(tmp, 's.ndjson')
            open(sf, 'w').write(json.dumps(rp['scenario']) + '\n')
            rc, so, se, dt = kzv.run([kzh, cmd, sf, sf + '.res', str(rp.get('realB', 1024)), '1', '1'], timeout=300)
            r = kzv.read_ndjson(sf + '.res')[0]
            print(json.dumps({k: v for k, v in r.items() if k != 'events'}))
            bad = r.get('pred') if r['status'] == 'violation' else None
        elif cmd == 'rerun-writer':
            rc, so, se, dt = kzv.run([kzh, 'rerun-writer', json.dumps(rp['run']), 'all'], timeout=600)
            tf = os.path.join(tmp, 't.ndjson')
            open(tf, 'w').write(json.dumps({'ev': 'Reset', 'run': 0, 'healthy': not (rp['run'].get('failAt') or rp['run'].get('failFrom'))}) + '\n' + so)
            bad = judge('Trace_Writer', tf)
        elif cmd in ('norm', 'names'):
            key = 'event'
            case = rp[key]
            cf = os.path.join(tmp, 'c.ndjson')
            if cmd == 'norm':
                c = {'in': case['in'], 'lr': case['scale'].bit_length() - 1, 'conv': case['conv'], 'pos': 'spread'}
                open(cf, 'w').write(json.dumps(c) + '\n')
                kzv.run([kzh, 'norm', cf, cf + '.tr'], timeout=300)
                bad = judge('Trace_Norm', cf + '.tr')
            else:
                raise kzv.ToolFailure('replay of a names case: re-run ./bin/check C15 (the case list is deterministic for a seed)')
        elif cmd in ('xform', 'entropy'):
            rc, so, se, dt = kzv.run([kzh, cmd, '-case', json.dumps(rp['case'])], timeout=600)
            tf = os.path.join(tmp, 't.ndjson')
            open(tf, 'w').write(so)
            bad = judge('Trace_Transform' if cmd == 'xform' else 'Trace_Entropy', tf)
        elif cmd == 'bits':
            pf = os.path.join(tmp, 'p.ndjson')
            open(pf, 'w').write(json.dumps(rp['program']) + '\n')
            kzv.run([kzh, 'bits', '-n', '0', '-progs', pf, '-out', pf + '.tr'], timeout=300)
            bad = judge('Trace_Bits', pf + '.tr')
        elif cmd == 'child-decode':
            lf = os.path.join(tmp, 'l.ndjson')
            open(lf, 'w').write(json.dumps({'id': 1, 'base': '', 'mut': '', 'jobs': rp['jobs'], 'bound': rp['bound_ms'], 'file': rp['stream_file']}) + '\n')
            p = kzv.subprocess.run([kzh, 'child-decode', lf, lf + '.res'], stdout=kzv.subprocess.PIPE, stderr=kzv.subprocess.PIPE, timeout=600)
            lines = [json.loads(x) for x in open(lf + '.res')] if os.path.exists(lf + '.res') else []
            last = lines[-1] if lines else {'status': 'crash'}
            st = last.get('status')
            if st == 'started' or p.returncode not in (0, 97):
                st = 'crash'
            print(json.dumps(last))
            bad = ('C03_' + st) if st not in ('ok', 'err') else None
        else:
            raise kzv.ToolFailure('no single-case replay for %r: re-run ./bin/check %s with VERIF_SEED of the evidence file' % (cmd, pid))
    finally:
        import shutil
        shutil.rmtree(tmp, ignore_errors=True)
    if bad:
        print('VIOLATION property=%s replay=%s' % (pid, path))
        kzv.log('  reproduced:', bad)
        return 1
    print('OK property=%s replay=%s (not reproduced on the current tree)' % (pid, path))
    return 0


# ================================================================================================
# Beyond the listed properties (bin/check X..): specifications grown to cover more of the system. Their verdicts are
# reported as DEVIATION lines and written to /verif/evidence-extra; they are not registered in MANIFEST.json.
# ================================================================================================
LEVEL['X01'] = 'model_checking'


def X01(ck):
    """Listener events of Writer / Reader: KzEvents (design) + Trace_Events (real logs), sharing KzEventLog."""
    T = thorough(ck)
    ck.cov['rule'] = ('KzEvents for both sides and (N blocks, J jobs) in the listed configurations: per-block phase order, batches do not overlap, '
                      'reader deliveries in block order, completeness, phantom deliveries bounded (as found); real listener logs of random '
                      'round trips (jobs 1..4 both sides, ck 0/32/64, panicking listeners) judged by Trace_Events with the same formulas plus '
                      'sizes / hashes against the independent parser and checksum reference')
    for side in ('w', 'r'):
        for N, J in (((3, 2), (2, 3), (4, 3), (5, 2)) if T else ((3, 2), (2, 3), (4, 2))):
            c = ('CONSTANTS\n N = %d\n J = %d\n Side = "%s"\nSPECIFICATION Spec\nINVARIANTS OrderOK BarrierOK DeliveryOK CompleteOK PhantomOK\n'
                 'PROPERTY Finishes\n' % (N, J, side))
            res = kzv.tlc('KzEvents', c, workers=4, timeout=1800)
            ck.add_tlc(res, 'KzEvents side=%s N=%d J=%d' % (side, N, J))
            if not res.ok:
                raise kzv.ToolFailure('KzEvents fails its own check: ' + res.out[-1500:])
    kzh = kzv.build_harness()
    tf = os.path.join(kzv.BUILD, 'tlc', 'events_%d.ndjson' % os.getpid())
    n = 3000 if T else 400
    rc, so, se, dt = kzv.run([kzh, 'events', '-n', str(n), '-seed', str(ck.seed), '-out', tf], timeout=3600)
    if rc != 0:
        raise kzv.ToolFailure('events driver failed: ' + se[-1500:])
    viols, stats = kzv.validate_runs('Trace_Events', tf, reset_ev='Case', timeout=3600)
    runs = int(so.strip() or 0)
    ck.cov['evaluations'] += runs
    ck.cov['distinct_nontrivial'] += runs
    ck.cov['traces_validated_against_impl'] += runs
    ck.cov['states'] += stats['distinct']
    for v in viols:
        ck.violation({'kind': 'events', 'pred': v['bad'], 'cfg': v['run'].get('cfg')}, {'cmd': 'events', 'case': v['run'].get('cfg'), 'event': v['event'],
                                                                                  'trace_window': v['window']}, name='events')
    os.remove(tf)
