"""Texts of MANIFEST.json entries (the commands and levels come from props.py)."""
TLC = 'model-based verification: explicit TLA+ spec checked by TLC + conformance (replay of TLC behaviours into the real code through gate hooks, and TLC trace validation of recorded executions)'

ENGINES = [
    {'name': 'tlc', 'path': '/opt/veriftools/tla/tla2tools.jar', 'kind_free_text': 'TLC 1.8 explicit-state model checker (exhaustive design checks, state-graph export, trace validation)',
     'serves_properties': []},
    {'name': 'kzh', 'path': '/verif/harness', 'kind_free_text': 'Go harness built against /repo with -tags verif: gate scheduler, fault injection, record drivers, independent container parser',
     'serves_properties': []},
]

NOTES = ('Every check = (a) TLC exhaustive check of the design spec(s) in /verif/specs, (b) replay of the exported behaviours on the real code and/or '
         '(c) TLC validation of traces recorded from the real code. VIOLATION lines come only from (b)/(c), i.e. from values observed on the real code; '
         'a failing design spec or tooling failure is exit 2. See DESIGN.md.')

READER_NOTE = ('trusted: TLC, the Go runtime, the harness (independent container parser kzfmt, gate scheduler), the scaling of abstract to real bytes; '
               'codec arithmetic is not modelled (blocks are opaque), data shapes are generated')

TABLE = {
    'C05': {'technique': TLC,
            'text': 'KzReader.tla (Read loop, batches, decode tasks, token hand-off) is model-checked exhaustively for jobs 1..3(4) x wires x hints x Read lengths; every edge of every state graph is replayed on the real Reader with the schedule imposed through blocking hooks and the delivered bytes / return values / token values compared; free-running executions over random codecs, jobs 1..64 and Read lengths are validated event by event by Trace_Reader.tla.',
            'note': READER_NOTE},
    'C02': {'technique': TLC,
            'text': 'KzReader.tla with damaged blocks in every position (single and double) is model-checked (R_Prefix, R_NothingAfterError, R_EOFOnlyAtEnd) and every edge replayed on the real Reader; recorded executions on real checksummed streams with payload corruptions (random, exhaustive byte substitution on small streams, in-pipeline damage injected before checksum verification) with continued Reads after the error are judged by Trace_Reader.tla.',
            'note': READER_NOTE + '; checksum collisions (2^-32) ignored'},
    'C09': {'technique': TLC,
            'text': 'KzReader.tla on wires without end marker never reaches a clean EOF (model-checked, all edges replayed on really truncated streams); every cut position of small real streams and random cuts of larger ones are decoded by the real Reader and judged by Trace_Reader.tla.',
            'note': READER_NOTE},
    'C11': {'technique': TLC,
            'text': 'KzReader.tla with every block range (from,to) up to blocks+2 is model-checked (R_Prefix against the expected slice, R_SkipUntouched, all-skipped batches terminate) and replayed; every range of real streams up to 12 blocks and random ranges over codecs/jobs are judged by Trace_Reader.tla, D_DEC hook events proving that skipped blocks are not decoded.',
            'note': READER_NOTE},
}
