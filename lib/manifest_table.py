"""Texts of MANIFEST.json entries (the commands and levels come from props.py)."""
TLC = 'model-based verification: explicit TLA+ spec checked by TLC + conformance (replay of TLC behaviours into the real code through gate hooks, and TLC trace validation of recorded executions)'

ENGINES = [
    {'name': 'tlc', 'path': '/opt/veriftools/tla/tla2tools.jar', 'kind_free_text': 'TLC 1.8 explicit-state model checker (exhaustive design checks, state-graph export, trace validation)',
     'serves_properties': []},
    {'name': 'kzh', 'path': '/verif/harness', 'kind_free_text': 'Go harness built against /repo with -tags verif: gate scheduler, fault injection, record drivers, independent container parser',
     'serves_properties': []},
]

NOTES = ('Every check = (a) TLC exhaustive check of the design spec(s) in /verif/specs, (b) replay of the exported behaviours on the real code and/or '
         '(c) TLC validation of traces recorded from the real code. VIOLATION lines come only from (b)/(c), i.e. from values observed on the real code; '
         'a failing design spec or tooling failure is exit 2. See DESIGN.md.')

READER_NOTE = ('trusted: TLC, the Go runtime, the harness (independent container parser kzfmt, gate scheduler), the scaling of abstract to real bytes; '
               'codec arithmetic is not modelled (blocks are opaque), data shapes are generated')

TABLE = {
    'C05': {'technique': TLC,
            'text': 'KzReader.tla (Read loop, batches, decode tasks, token hand-off) is model-checked exhaustively for jobs 1..3(4) x wires x hints x Read lengths; every edge of every state graph is replayed on the real Reader with the schedule imposed through blocking hooks and the delivered bytes / return values / token values compared; free-running executions over random codecs, jobs 1..64 and Read lengths are validated event by event by Trace_Reader.tla.',
            'note': READER_NOTE},
    'C02': {'technique': TLC,
            'text': 'KzReader.tla with damaged blocks in every position (single and double) is model-checked (R_Prefix, R_NothingAfterError, R_EOFOnlyAtEnd) and every edge replayed on the real Reader; recorded executions on real checksummed streams with payload corruptions (random, exhaustive byte substitution on small streams, in-pipeline damage injected before checksum verification) with continued Reads after the error are judged by Trace_Reader.tla.',
            'note': READER_NOTE + '; checksum collisions (2^-32) ignored'},
    'C09': {'technique': TLC,
            'text': 'KzReader.tla on wires without end marker never reaches a clean EOF (model-checked, all edges replayed on really truncated streams); every cut position of small real streams and random cuts of larger ones are decoded by the real Reader and judged by Trace_Reader.tla.',
            'note': READER_NOTE},
    'C11': {'technique': TLC,
            'text': 'KzReader.tla with every block range (from,to) up to blocks+2 is model-checked (R_Prefix against the expected slice, R_SkipUntouched, all-skipped batches terminate) and replayed; every range of real streams up to 12 blocks and random ranges over codecs/jobs are judged by Trace_Reader.tla, D_DEC hook events proving that skipped blocks are not decoded.',
            'note': READER_NOTE},
    'C04': {'technique': TLC,
            'text': 'KzWriter.tla (Write loop, batches, encode tasks, token hand-off, shared bitstream) is model-checked exhaustively for jobs 1..3(4) x data lengths x hints x Write lengths (W_Partition, W_Mutex, W_TokenOrder); every edge is replayed on the real Writer through the gate hooks and the sink content parsed independently; recorded executions of identical data+parameters through jobs {1,2,3,4,8,64} x Write partitions x repeated runs x perturbed schedules must yield byte-identical streams (Trace_Writer.tla Out events).',
            'note': READER_NOTE},
    'C08': {'technique': TLC + '; exhaustive enumeration of the failing sink call index',
            'text': 'KzWriter.tla with sink faults during the emit of every block, codec faults in every block, failing final flush and sink Close with retries is model-checked (W_CloseOK, W_FailureReported, W_NoPanic) and every edge replayed with the faults placed where the model places them; then, per stream, a fault-free run counts the sink calls and one run per failing call index (once / forever / partial) x caller reaction is judged by Trace_Writer.tla; source faults at random call indices are judged by Trace_Reader.tla (never a clean EOF before the error is reported).',
            'note': READER_NOTE + '; a source failure that happens after the complete stream was handed over is not required to be reported'},
    'C17': {'technique': TLC,
            'text': 'KzWriter.tla / KzReader.tla with the full call alphabet (lengths incl. 0, repeated Close, calls after Close, retried Close after a failure) are model-checked (W_ClosedRefuses, R_ClosedRefuses, W_CloseOK) and all edges replayed on the real objects; random API programs over Write/Close/GetWritten and Read/Close/GetRead are judged call by call by Trace_Writer.tla / Trace_Reader.tla (idempotent Close, refusal after Close, full-length Write, monotone counters, GetWritten = bytes received by the sink).',
            'note': READER_NOTE},
    'C07': {'technique': TLC,
            'text': 'Protocol configurations of KzWriter.tla and KzReader.tla (N = 2..4 concurrent tasks, a failure of every kind in every block position: before the wait, while holding the stream, after publishing; end of stream; skipped batches) are model-checked for Mutex, TokenOrder, CancelSticks, deadlock freedom and, under weak fairness, termination of every call and task; every edge of every graph is replayed on the real code through the hooks (gates + injected faults), a task that does not reach its next protocol point is a violation; free-running executions with up to 64 jobs are checked by the interval predicates of the trace specs.',
            'note': READER_NOTE + '; "nobody acquires after a published failure" is decided in replay mode only (a free-running log cannot order the load of the spin loop)'},
    'C06': {'technique': TLC,
            'text': 'KzWriter.tla/KzReader.tla are model-checked and replayed with every mix of Write/Read buffer lengths (incl. 0); real streams over all codec pairs are decoded through sources delivering 1, 7, 8, 9, 13/5/64, random ... bytes per call with random Read buffer sizes, and compressed through random Write partitions; Trace_Reader.tla/Trace_Writer.tla require the digests of the plain run. The bit-level refill logic is model-checked in KzBitIn.tla (C14).',
            'note': READER_NOTE},
    'C01': {'technique': TLC + '; codec layer explored by generated round trips judged by the trace spec',
            'text': 'Stream layer decided by model checking: KzWriter.tla (every Write partition x hint class x jobs: W_CloseOK, W_Partition) and KzReader.tla on clean wires (R_CompleteAtEOF), all edges replayed on the real code. Codec layer explored: thousands of round trips through the public stream API over the ten level presets, all single transforms, random chains of 1..8 transforms x 9 entropy codecs x 19 data shapes x block sizes x jobs x checksum x hint classes x headerless x Write partitions, each judged event by event by Trace_Writer.tla (Write full length, Close nil, decoded digest = accepted digest, GetWritten = sink size); configurations at the limits of validity must be rejected by the constructor or work completely.',
            'note': READER_NOTE + '; that every codec is an inverse pair for ALL inputs is not decided (exploration)'},
    'C16': {'technique': TLC + ' (the function itself is transcribed into TLA+)',
            'text': 'NormalizeFrequencies is transcribed operator by operator into KzNormFreq.tla; TLC checks ValidTable exhaustively on the enumerated families (r rare + d dominant symbols x scales; all short sequences over a count menu) for the transcription; the same families plus exact-total and random histograms (counts up to 2^26, alphabets 1..256, scales 2^8..2^16, both calling conventions) are run through the real function and TLC evaluates ValidTable on the REAL outputs (Trace_Norm.tla, the verdict) and equality with the transcription (drift report).',
            'note': 'trusted: TLC, the harness driver; totalFreq is the true sum (as all callers pass); count*scale >= 2^31 only judged on the post-condition'},
    'C15': {'technique': TLC,
            'text': 'KzNames.tla (type code tables, chain packing with NONE removed, canonical names) is model-checked for all chains up to length 2 (3 in thorough); every case variant of all 28 names, all chains of length 2 (3), random chains up to 8 with NONE fillers go through the real GetType/GetName and are judged against the spec tables by Trace_Names.tla; every name and sampled chains are run end to end through Writer/Reader in lower/mixed case on data that activates the variant-specific code: the stream must be byte-identical to the canonical spelling, the header type codes (independent parser) must equal the spec codes and the stream must decode.',
            'note': 'trusted: TLC, harness, container parser; case variants of chains of length >= 2 are sampled (one random mask per element)'},
    'C03': {'technique': 'exploration: structure-aware mutants from the KzFormat field catalogue decoded in watchdog-guarded child processes, judged by a TLC trace spec; containment design (helper goroutines, reader liveness under faults) model-checked in TLA+',
            'text': 'KzHelpers.tla (helper goroutines of the inverse BWT) and KzReader.tla under failures (liveness, deadlock freedom) decide the containment design; totality over all inputs is EXPLORED: base streams over random chains and all codecs, mutated field by field (header fields with recomputed header checksum, every transform/entropy code, block length fields, mode/skip/pre-transform length, first 24 bytes of codec data such as BWT primary indexes, plus random bytes, truncations, splices, garbage, and the multi-MiB inverse BWT regime), each decoded in a child process with jobs 1..8 under a watchdog; Trace_Total.tla requires normal return within the bound.',
            'note': 'exploration level: no claim for all byte strings; hangs are confirmed by an isolated re-run before they count'},
    'C13': {'technique': 'exploration: contract model in TLA+ (KzSequence.tla, model-checked) + every transform run against the contract, each event judged by a TLC trace spec',
            'text': 'KzSequence.tla models Forward/Inverse of the transform sequence and the mode/skip-flag bytes over abstract stages and is model-checked for every vector of stage outcomes and length changes (chains up to 6, 8 in thorough): if each stage honours the per-stage contract the inverse sequence restores the block inside the decoder buffers; a dirty decline and the as-found sequence are shown to break it. The 19 real transforms (built as the factory builds them, plus chains through transform.New) are then run against exactly that contract on 19 data shapes x sizes x data-type hints x entropy context, forward into a buffer of exactly MaxEncodedLen and inverse into a buffer of the decompressor size; Trace_Transform.tla judges every event.',
            'note': 'exploration level: no claim that each transform is an inverse pair for all inputs; trusted: TLC, harness'},
    'C12': {'technique': 'exploration: framing model in TLA+ (KzEntropyFrame.tla with the transcribed NormalizeFrequencies, model-checked) + every codec on the derived case space with a sentinel word, each event judged by a TLC trace spec',
            'text': 'KzEntropyFrame.tla (raw threshold, chunk loop, header carrying all frequencies but the first, decoder rebuilding the first) is model-checked: encoder and decoder tables agree iff the scaled table sums to the scale. The 9 real entropy codecs are run as encoder/decoder pairs over the length classes around the raw threshold and the internal chunk sizes x data families (shapes, alphabets of 1..256 symbols, r rare + d dominant symbols) x bit alignments, with a 64-bit sentinel written after the block; Trace_Entropy.tla requires decoded = original, bits read = bits written and an intact sentinel.',
            'note': 'exploration level; known finding F10 (empty block through FPAQ/CM/TPAQ/TPAQX) is listed in known_findings.jsonl'},
}
