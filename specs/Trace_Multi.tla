----------------------------- MODULE Trace_Multi -----------------------------
(***************************************************************************)
(* Judge for C18 (non-interference).  MULTI: one pipeline (Writer then     *)
(* Reader) run alone (iso fields) and together with all the others of its  *)
(* round under perturbed schedules (conc fields): the stream and the       *)
(* decoded output must be the same, and the decoded output is the input.   *)
(***************************************************************************)
EXTENDS Integers, Sequences, TLC, Json, IOUtils
Trace == ndJsonDeserialize(IOEnv.TRACE_FILE)
VARIABLES l
Init == l = 1
Bad(e) == IF e.concStream # e.isoStream THEN "C18_stream_differs_when_run_concurrently"
          ELSE IF e.concOut # e.isoOut THEN "C18_output_differs_when_run_concurrently"
          ELSE IF e.concOut # e.orig THEN "C18_pipeline_does_not_round_trip"
          ELSE "none"
Next == /\ l <= Len(Trace)
        /\ l' = l + 1
        /\ LET e == Trace[l] IN (e.ev = "MULTI" /\ Bad(e) # "none") => PrintT(<<"VIOLATION_AT", l, Bad(e)>>)
Spec == Init /\ [][Next]_l
Consumed == TLCGet("stats").diameter - 1 = Len(Trace)
=============================================================================
