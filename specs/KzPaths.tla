------------------------------ MODULE KzPaths ------------------------------
(***************************************************************************)
(* How the command line tool names its outputs in directory -> directory    *)
(* mode (v2/app/BlockCompressor.go, BlockDecompressor.go, internal/File.go):*)
(* the input directory is given by the user in any spelling ("./t/s",       *)
(* "t//s", "t/./s", "t/s/../s", "t/s/"); the directory walk returns CLEANED *)
(* paths (filepath.Join); the output name is the output directory plus the  *)
(* part of the walked path behind the input directory.                      *)
(*                                                                         *)
(* Strings are sequences of one-character tokens; directory and file names  *)
(* are single letters, "/" separates, "." and ".." have their usual         *)
(* meaning.  Impl = "asis": the part behind the input directory is taken by *)
(* cutting len(spelled input directory) characters off the walked path      *)
(* (F21); Impl = "fixed": it is the path relative to the input directory.   *)
(***************************************************************************)
EXTENDS Integers, Sequences, TLC

CONSTANTS Alphabet,   \* characters a user may type for the input directory, e.g. {"t", "s", ".", "/"}
          MaxLen,     \* longest spelling
          Dir,        \* the directory meant, as a cleaned string, e.g. <<"t", "/", "s">>
          Rels,       \* relative paths of the files below it, e.g. {<<"f">>, <<"u", "/", "g">>}
          Impl

Sep == "/"

\* split a string at the separators
RECURSIVE Split(_, _, _)
Split(str, i, cur) == IF i > Len(str) THEN <<cur>>
                      ELSE IF str[i] = Sep THEN <<cur>> \o Split(str, i + 1, <<>>)
                      ELSE Split(str, i + 1, Append(cur, str[i]))

\* filepath.Clean for relative paths: drop empty and "." elements, resolve ".." against the element before it
RECURSIVE Resolve(_, _, _)
Resolve(toks, i, acc) ==
    IF i > Len(toks) THEN acc
    ELSE LET t == toks[i] IN
         IF t = <<>> \/ t = <<".">> THEN Resolve(toks, i + 1, acc)
         ELSE IF t = <<".", ".">> THEN
              IF Len(acc) > 0 /\ acc[Len(acc)] # <<".", ".">> THEN Resolve(toks, i + 1, SubSeq(acc, 1, Len(acc) - 1))
              ELSE Resolve(toks, i + 1, Append(acc, t))
         ELSE Resolve(toks, i + 1, Append(acc, t))

RECURSIVE JoinToks(_, _)
JoinToks(toks, i) == IF i > Len(toks) THEN <<>>
                     ELSE toks[i] \o (IF i < Len(toks) THEN <<Sep>> ELSE <<>>) \o JoinToks(toks, i + 1)

Clean(str) == LET r == Resolve(Split(str, 1, <<>>), 1, <<>>) IN IF r = <<>> THEN <<".">> ELSE JoinToks(r, 1)

\* the spelled input directory as the tool formats it: a separator is appended when missing  (BlockCompressor.go l.463-469;
\* the special suffix "/." -- non recursive listing -- is not part of this model)
Formatted(sp) == IF sp[Len(sp)] = Sep THEN sp ELSE Append(sp, Sep)

\* what the directory walk reports for the file with relative path rel  (internal/File.go: filepath.Walk -> filepath.Join)
Walked(sp, rel) == LET c == Clean(sp) IN (IF c = <<".">> THEN <<>> ELSE c \o <<Sep>>) \o rel

\* the part of the walked path behind the input directory
Behind(sp, rel) ==
    LET f == Formatted(sp)
        w == Walked(sp, rel)
    IN IF Impl = "asis"
       THEN IF Len(w) >= Len(f) THEN SubSeq(w, Len(f) + 1, Len(w)) ELSE <<"?">>      \* iName[len(formattedInName):]
       ELSE \* filepath.Rel(clean(dir), clean(path)): both are cleaned first
            LET cd == Clean(f)
                base == IF cd = <<".">> THEN <<>> ELSE cd \o <<Sep>>
            IN SubSeq(w, Len(base) + 1, Len(w))

Strings(n) == UNION {[1..k -> Alphabet] : k \in 1..n}

VARIABLES spelled, rel
Init == /\ spelled \in {s \in Strings(MaxLen) : Clean(s) = Dir}
        /\ rel \in Rels
Next == UNCHANGED <<spelled, rel>>
Spec == Init /\ [][Next]_<<spelled, rel>>

\* C19: every file is written (and later restored) under its own relative path, however the directory was spelled
NameOK == Behind(spelled, rel) = rel
\* two different files never get the same output name
Injective == \A r2 \in Rels : r2 # rel => Behind(spelled, r2) # Behind(spelled, rel)
=============================================================================
