---------------------------- MODULE Trace_Names ----------------------------
(***************************************************************************)
(* Judge for C15 over values recorded from the real code.                  *)
(*  TNAME  names (canonical element names of the chain), spelled, err,     *)
(*         codes (GetType(spelled) as 8 slot codes), back (GetName of it,  *)
(*         split at "+")                                                   *)
(*  ENAME  name, spelled, err, code, back                                  *)
(*  STREAM key, canon (TRUE for the canonical spelling, emitted first),    *)
(*         dig (digest of the produced stream), hdrT (8 slot codes parsed  *)
(*         from the header by the independent parser), hdrE, names, ename, *)
(*         rt ("ok" when the stream decodes to the original), stagewise    *)
(*         ("ok" when the stream, undone stage by stage with codecs built  *)
(*         from the header types alone, gives the original; "n/a" when not *)
(*         attempted)                                                      *)
(***************************************************************************)
EXTENDS Integers, Sequences, TLC, Json, IOUtils

K == INSTANCE KzNames WITH MaxChain <- 0, Names <- {}, chain <- <<>>

Trace == ndJsonDeserialize(IOEnv.TRACE_FILE)

VARIABLES l, digs
vars == <<l, digs>>
Init == l = 1 /\ digs = <<>>

Known(k) == \E i \in 1..Len(digs) : digs[i][1] = k
DigOf(k) == LET i == CHOOSE i \in 1..Len(digs) : digs[i][1] = k IN digs[i][2]

TOk(e) == /\ ~e.err
          /\ e.codes = K!Pack(e.names)          \* the numeric type is the packed canonical chain
          /\ e.back = K!Canon(e.names)          \* and maps back to the canonical name
EOk(e) == ~e.err /\ e.code = K!ECode[e.name] /\ e.back = e.name
SOk(e) == /\ e.rt = "ok"                                   \* the stream round-trips
          /\ e.hdrT = K!Pack(e.names) /\ e.hdrE = K!ECode[e.ename]   \* header types are the canonical ones
          /\ (~e.canon => (Known(e.key) /\ DigOf(e.key) = e.dig))    \* same bytes as the canonical spelling

Next ==
    /\ l <= Len(Trace)
    /\ l' = l + 1
    /\ LET e == Trace[l] IN
         /\ digs' = IF e.ev = "STREAM" /\ e.canon /\ ~Known(e.key) THEN Append(digs, <<e.key, e.dig>>) ELSE digs
         /\ (e.ev = "TNAME" /\ ~TOk(e)) => PrintT(<<"VIOLATION_AT", l, "C15_transform_name">>)
         /\ (e.ev = "ENAME" /\ ~EOk(e)) => PrintT(<<"VIOLATION_AT", l, "C15_entropy_name">>)
         /\ (e.ev = "STREAM" /\ ~SOk(e)) => PrintT(<<"VIOLATION_AT", l, "C15_stream_differs">>)
         \* every numeric type in the header names the codec variant that was actually used
         /\ (e.ev = "STREAM" /\ SOk(e) /\ e.stagewise \notin {"ok", "n/a"})
               => PrintT(<<"VIOLATION_AT", l, "C15_header_type_is_not_the_variant_used">>)

Spec == Init /\ [][Next]_vars
Consumed == TLCGet("stats").diameter - 1 = Len(Trace)
=============================================================================
