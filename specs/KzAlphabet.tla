----------------------------- MODULE KzAlphabet -----------------------------
(***************************************************************************)
(* entropy.EncodeAlphabet / DecodeAlphabet (v2/entropy/EntropyUtils.go):    *)
(* the header by which the ANS, Range and Huffman codecs tell the decoder   *)
(* which symbols are present.  Transcribed case by case:                    *)
(*    empty alphabet          bit 0 (full), bit 1 (alphabet 0)              *)
(*    all NSYM symbols        bit 0 (full), bit 0 (alphabet 256)            *)
(*    otherwise               bit 1 (partial), LB bits: index of the last   *)
(*                            non-empty mask byte, then the mask bytes      *)
(*                            0..last, each written most significant bit    *)
(*                            first, bit j of byte i standing for symbol    *)
(*                            8*i + j                                       *)
(* The real constants are NM = 32 mask bytes and LB = 5; TLC enumerates     *)
(* every alphabet for NM = 2 (16 symbols, 65 536 alphabets), and the trace  *)
(* spec Trace_Alphabet evaluates the same operators with NM = 32 on values  *)
(* recorded from the real functions.                                        *)
(***************************************************************************)
EXTENDS Integers, Sequences, FiniteSets, TLC

CONSTANTS NM,   \* number of mask bytes
          LB    \* width of the "last mask" field

NSYM == 8 * NM
Syms == 0..(NSYM - 1)

Max(S) == CHOOSE x \in S : \A y \in S : y <= x

RECURSIVE BitsOf(_, _)
\* v as w bits, most significant first
BitsOf(v, w) == IF w = 0 THEN <<>> ELSE BitsOf(v \div 2, w - 1) \o <<v % 2>>

RECURSIVE ValOf(_, _, _)
ValOf(b, from, w) == IF w = 0 THEN 0 ELSE 2 * ValOf(b, from, w - 1) + b[from + w - 1]

MaskByte(A, i) == [k \in 1..8 |-> IF (8 * i + (8 - k)) \in A THEN 1 ELSE 0]

RECURSIVE Masks(_, _, _)
Masks(A, i, last) == IF i > last THEN <<>> ELSE MaskByte(A, i) \o Masks(A, i + 1, last)

\* EncodeAlphabet  (l.39-66)
Enc(A) == IF A = {} THEN <<0, 1>>
          ELSE IF Cardinality(A) = NSYM THEN <<0, 0>>
          ELSE LET last == Max(A) \div 8
               IN <<1>> \o BitsOf(last, LB) \o Masks(A, 0, last)

\* the increasing enumeration of a set of symbols
RECURSIVE Sorted(_, _)
Sorted(A, from) == IF from >= NSYM THEN <<>>
                   ELSE IF from \in A THEN <<from>> \o Sorted(A, from + 1) ELSE Sorted(A, from + 1)

\* DecodeAlphabet on a bit sequence b (which may continue after the header): <<alphabet, bits consumed>>  (l.70-118)
RECURSIVE DecMasks(_, _, _, _)
\* scans mask bytes i..last; pos is the index in b of the first bit of mask byte i
DecMasks(b, i, last, pos) ==
    IF i > last THEN <<>>
    ELSE LET byte == [k \in 1..8 |-> b[pos + k - 1]]
             here == [j \in 0..7 |-> byte[8 - j]]                  \* bit j of the byte
             RECURSIVE Low(_)
             Low(j) == IF j > 7 THEN <<>> ELSE (IF here[j] = 1 THEN <<8 * i + j>> ELSE <<>>) \o Low(j + 1)
         IN Low(0) \o DecMasks(b, i + 1, last, pos + 8)

Dec(b) == IF b[1] = 0
          THEN IF b[2] = 1 THEN <<<<>>, 2>> ELSE <<[k \in 1..NSYM |-> k - 1], 2>>
          ELSE LET last == ValOf(b, 2, LB)
               IN <<DecMasks(b, 0, last, 2 + LB), 1 + LB + 8 * (last + 1)>>

(***************************************************************************)
(* Properties: exact inverse, bit-exact consumption, increasing order       *)
(***************************************************************************)
RoundTrip(A) == LET e == Enc(A)
                    d == Dec(e \o <<1, 0, 1, 1>>)        \* the header is followed by other data
                IN /\ d[1] = Sorted(A, 0)
                   /\ d[2] = Len(e)
Increasing(s) == \A i \in 1..(Len(s) - 1) : s[i] < s[i + 1]

VARIABLE alpha
Init == alpha \in SUBSET Syms
Next == UNCHANGED alpha
Spec == Init /\ [][Next]_alpha
Inverse == RoundTrip(alpha)
Ordered == Increasing(Dec(Enc(alpha))[1])
\* the header never costs more than 1 + LB + 8 NM bits and the two-bit forms are used exactly for the two extreme alphabets
Size == /\ Len(Enc(alpha)) <= 1 + LB + 8 * NM
        /\ (Len(Enc(alpha)) = 2) <=> (alpha = {} \/ alpha = Syms)
=============================================================================
