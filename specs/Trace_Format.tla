---------------------------- MODULE Trace_Format ----------------------------
(***************************************************************************)
(* Judge for C10.                                                          *)
(*  GOLDEN file, want, got     a stream of the archived corpus (written by *)
(*         the pinned reference encoder) decoded by the current decoder    *)
(*  LIVE   refok, ref, curok, cur   a fresh stream written by the reference*)
(*         encoder, decoded by the reference decoder and by the current one*)
(*  HDR / BLK / END   the container of a stream written by the CURRENT     *)
(*         encoder, parsed by the independent parser, next to what the     *)
(*         encoder itself logged through the hooks                         *)
(*  HASH   bits, n, got, want   the 32/64-bit block checksum of an input   *)
(*         computed by v2/hash and by the independent harness/xxref        *)
(***************************************************************************)
EXTENDS Integers, Sequences, TLC, Json, IOUtils

F == INSTANCE KzFormat

Trace == ndJsonDeserialize(IOEnv.TRACE_FILE)
VARIABLES l, lastBlk
vars == <<l, lastBlk>>
Init == l = 1 /\ lastBlk = 0

HdrOk(e) == /\ e.parsed
            /\ e.magic = F!Magic /\ e.version = F!Version
            /\ e.ck = F!CkCode(e.ckbits)
            /\ e.entropy = F!K!ECode[e.ename]
            /\ e.t = F!K!Pack(e.tnames)
            /\ e.bsz * 16 = e.block
            /\ e.szMask = F!SizeMask(e.hint)
            /\ e.bits = F!HeaderBits(e.szMask)
            /\ e.pad = 0
            /\ e.cksumOk
            /\ (e.szMask > 0 => e.size = e.hint)

BlkOk(e) == /\ e.id = lastBlk + 1
            /\ e.lenBits = e.hookWritten                          \* the frame holds exactly what the task encoded
            /\ e.lw = F!LenWidth(e.lenBits)
            /\ e.preLen = e.hookPost
            /\ e.dataSize = F!DataSize(e.preLen)
            /\ e.dataSize = F!ModeDataSize(e.mode)
            /\ e.mode = e.hookMode
            /\ (e.blockLen <= F!SmallBlock => F!ModeIsCopy(e.mode))
            /\ (F!ModeHasSkipByte(e.mode) <=> (e.ntransforms > 4 /\ ~F!ModeIsCopy(e.mode)))
            /\ (e.hasSkip => e.skip = e.hookSkip)

EndOk(e) == e.found /\ e.blocks = lastBlk /\ e.trailing < 8

Bad(e) == CASE e.ev = "GOLDEN" -> IF e.got = e.want THEN "none" ELSE "C10_golden_stream_decodes_differently"
            [] e.ev = "LIVE"   -> IF e.refok /\ ~(e.curok /\ e.cur = e.ref) THEN "C10_differs_from_reference_decoder" ELSE "none"
            [] e.ev = "HDR"    -> IF HdrOk(e) THEN "none" ELSE "C10_header_layout"
            [] e.ev = "BLK"    -> IF BlkOk(e) THEN "none" ELSE "C10_block_frame_layout"
            [] e.ev = "END"    -> IF EndOk(e) THEN "none" ELSE "C10_end_marker"
            \* the block checksum functions are part of the format: v2/hash vs the independent implementation
            [] e.ev = "HASH"   -> IF e.got = e.want THEN "none" ELSE "C10_checksum_function"
            [] OTHER           -> "none"

Next == /\ l <= Len(Trace)
        /\ l' = l + 1
        /\ LET e == Trace[l] IN
             /\ lastBlk' = IF e.ev = "HDR" THEN 0 ELSE IF e.ev = "BLK" THEN e.id ELSE lastBlk
             /\ Bad(e) # "none" => PrintT(<<"VIOLATION_AT", l, Bad(e)>>)
Spec == Init /\ [][Next]_vars
Consumed == TLCGet("stats").diameter - 1 = Len(Trace)
=============================================================================
