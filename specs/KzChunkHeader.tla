--------------------------- MODULE KzChunkHeader ---------------------------
(***************************************************************************)
(* The fixed-width fields at the head of a chunk of the static-model       *)
(* codecs (ANSRangeCodec.go / RangeCodec.go, encodeHeader / decodeHeader): *)
(*                                                                         *)
(*   logRange - 8      3 bits                                              *)
(*   per group of 6/8 symbols:                                             *)
(*     logMax          llr bits   (bit length of the largest freq-1)       *)
(*     freq-1          logMax bits each                                    *)
(*                                                                         *)
(* WriteBits keeps the low w bits of its argument, so a value that does    *)
(* not fit its field is stored as another value and the decoder derives    *)
(* every later width from it.  The model follows one group with one        *)
(* largest frequency through encoder and decoder, field by field, for      *)
(* every log range the constructor accepts.                                *)
(*                                                                         *)
(*   Cap = "asfound" : the constructor hands the accepted value through    *)
(*                     (defects F26 / F27: 16 does not fit in 3 bits)      *)
(*   Cap = "capped"  : the effective log range is min(requested, 15)       *)
(*   Llr = "loop"    : llr = 3; while 2^llr <= lr: llr++   (the code)      *)
(*   Llr = "len1"    : llr = bitlen(lr-1)  (a seeded change, C12ag)        *)
(*                                                                         *)
(* Bound to the code by the constructor-parameter sweep of the C12 check:  *)
(* every accepted log range x chunk size x histogram family through the    *)
(* public constructors, judged by Trace_Entropy.                           *)
(***************************************************************************)
EXTENDS Integers, Sequences, TLC
CONSTANTS Accepted, Cap, Llr
VARIABLES req, fmax, pc, wire, dec

vars == <<req, fmax, pc, wire, dec>>

RECURSIVE Pow2(_), BitLen(_)
Pow2(n) == IF n = 0 THEN 1 ELSE 2 * Pow2(n - 1)
BitLen(v) == IF v = 0 THEN 0 ELSE 1 + BitLen(v \div 2)
Field(v, w) == v % Pow2(w)                   \* what WriteBits(v, w) leaves on the wire
Min2(a, b) == IF a < b THEN a ELSE b

Eff(r) == IF Cap = "capped" THEN Min2(r, 15) ELSE r
LlrOf(lr) == IF Llr = "loop" THEN (IF lr >= 16 THEN 5 ELSE IF lr >= 8 THEN 4 ELSE 3) ELSE BitLen(lr - 1)

\* the largest frequency of a group: classes around the field boundaries (a table of scale 2^lr with at least two symbols)
Fmaxes(lr) == {1, 2, 3, Pow2(lr - 1), Pow2(lr - 1) + 1, Pow2(lr) - 1}

Init == /\ req \in Accepted
        /\ fmax \in Fmaxes(Eff(req))
        /\ pc = "enc"
        /\ wire = <<>>
        /\ dec = [lr |-> 0, fmax |-> 0, sync |-> TRUE]

\* encoder: three fields, each truncated to its width; the widths are part of the wire (the decoder must guess them right)
Encode == /\ pc = "enc"
          /\ LET lr == Eff(req)
                 lm == BitLen(fmax - 1)
             IN wire' = << [v |-> Field(lr - 8, 3), w |-> 3],
                           [v |-> Field(lm, LlrOf(lr)), w |-> LlrOf(lr)],
                           [v |-> Field(fmax - 1, lm), w |-> lm] >>
          /\ pc' = "dec"
          /\ UNCHANGED <<req, fmax, dec>>

\* decoder: derives every width from what it has read so far; a width that differs from the encoder's desynchronises the stream
Decode == /\ pc = "dec"
          /\ LET lr == 8 + wire[1].v
                 w2 == LlrOf(lr)
                 lm == wire[2].v
             IN dec' = [lr |-> lr,
                        fmax |-> IF lm = 0 THEN 1 ELSE wire[3].v + 1,
                        sync |-> w2 = wire[2].w /\ lm = wire[3].w]
          /\ pc' = "done"
          /\ UNCHANGED <<req, fmax, wire>>

Next == Encode \/ Decode \/ (pc = "done" /\ UNCHANGED vars)
Spec == Init /\ [][Next]_vars

\* every field holds the value that was put into it
FieldsFit == pc # "enc" => /\ wire[1].v = Eff(req) - 8
                           /\ wire[2].v = BitLen(fmax - 1)
                           /\ wire[3].v = fmax - 1
\* the decoder sees the encoder's table parameters and stays aligned
Mirror == pc = "done" => dec.sync /\ dec.lr = Eff(req) /\ (fmax > 1 => dec.fmax = fmax)
=============================================================================
