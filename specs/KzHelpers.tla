----------------------------- MODULE KzHelpers -----------------------------
(***************************************************************************)
(* Containment of failures (C03): a decoding task runs the codecs under a  *)
(* deferred recover, but a codec may start helper goroutines of its own    *)
(* (inverse BWT for blocks >= 4 MiB: BWT.inverseBiPSIv2).  A panic in a    *)
(* goroutine that has no recover of its own terminates the process, no     *)
(* matter what the goroutine that started it does.                         *)
(* Impl = "asis": helpers without recover (commit 76efab5).                *)
(* Impl = "fixed": each helper recovers and raises a flag that the parent  *)
(* turns into an error after the join.                                     *)
(***************************************************************************)
EXTENDS Integers, FiniteSets, TLC

CONSTANTS NHelpers, Impl, BadInput   \* BadInput: set of helpers whose chunk of data makes them fault

Helpers == 1..NHelpers

VARIABLES ppc,      \* parent task: "start" | "join" | "done"
          hpc,      \* helper: "idle" | "run" | "done" | "dead"
          failed,   \* (fixed) flag raised by a recovered helper
          result,   \* "none" | "ok" | "error"
          alive     \* the process

vars == <<ppc, hpc, failed, result, alive>>

Init == ppc = "start" /\ hpc = [h \in Helpers |-> "idle"] /\ failed = FALSE /\ result = "none" /\ alive = TRUE

Start == /\ alive /\ ppc = "start"
         /\ hpc' = [h \in Helpers |-> "run"] /\ ppc' = "join"
         /\ UNCHANGED <<failed, result, alive>>

Run(h) == /\ alive /\ hpc[h] = "run"
          /\ IF h \in BadInput
             THEN IF Impl = "asis"
                  THEN alive' = FALSE /\ hpc' = [hpc EXCEPT ![h] = "dead"] /\ UNCHANGED failed     \* unrecovered panic
                  ELSE failed' = TRUE /\ hpc' = [hpc EXCEPT ![h] = "done"] /\ UNCHANGED alive
             ELSE hpc' = [hpc EXCEPT ![h] = "done"] /\ UNCHANGED <<failed, alive>>
          /\ UNCHANGED <<ppc, result>>

Join == /\ alive /\ ppc = "join" /\ \A h \in Helpers : hpc[h] = "done"
        /\ result' = IF failed THEN "error" ELSE "ok"
        /\ ppc' = "done"
        /\ UNCHANGED <<hpc, failed, alive>>

Finished == (ppc = "done" \/ ~alive) /\ UNCHANGED vars

Next == Start \/ (\E h \in Helpers : Run(h)) \/ Join \/ Finished
Spec == Init /\ [][Next]_vars
FairSpec == Spec /\ WF_vars(Start) /\ WF_vars(Join) /\ \A h \in Helpers : WF_vars(Run(h))

\* C03: no input kills the process
Alive == alive
\* C03: invalid data is reported, not returned as a success
Reported == (ppc = "done" /\ BadInput # {}) => result = "error"
\* C03: the call terminates
Terminates == <>(ppc = "done" \/ ~alive)
=============================================================================
