---------------------------- MODULE Trace_Total ----------------------------
(***************************************************************************)
(* Judge for C03 over child-process decodes of mutated streams.            *)
(*  CHILD  id, status ("ok": decoded to the end | "err": a Read reported   *)
(*         an error | "hang": a Read did not return within the bound, the  *)
(*         watchdog ended the process | "crash": the process died (panic,  *)
(*         fatal error) | "noprogress": Read keeps returning (0, nil)),    *)
(*         ms (elapsed), bound (ms)                                        *)
(***************************************************************************)
EXTENDS Integers, Sequences, TLC, Json, IOUtils

Trace == ndJsonDeserialize(IOEnv.TRACE_FILE)

VARIABLES l
Init == l = 1

\* C03: each Read returns data, an error or end-of-stream, in bounded time, and the process survives
Total(e) == e.status \in {"ok", "err"} /\ e.ms <= e.bound

Next == /\ l <= Len(Trace)
        /\ l' = l + 1
        /\ LET e == Trace[l] IN (e.ev = "CHILD" /\ ~Total(e)) => PrintT(<<"VIOLATION_AT", l, "C03_" \o e.status>>)

Spec == Init /\ [][Next]_l
Consumed == TLCGet("stats").diameter - 1 = Len(Trace)
=============================================================================
