--------------------------- MODULE Trace_Alphabet ---------------------------
(***************************************************************************)
(* Judge for the alphabet header (part of C12: the decoder reads exactly    *)
(* the bits the encoder wrote and rebuilds the same symbols).               *)
(*  ALPHA alpha (increasing symbols given to EncodeAlphabet), bits (the     *)
(*        bits it wrote), encRet, dec (what DecodeAlphabet returned),       *)
(*        decRet, used (bits it consumed), sentinel (the 64 bits written    *)
(*        after the header were read back intact), encErr / decErr          *)
(* The verdict predicates are consequences of C12 (inverse pair, bit-exact  *)
(* consumption); equality of the bits with KzAlphabet!Enc is the binding of *)
(* the specification to the code and is reported as drift only.             *)
(***************************************************************************)
EXTENDS Integers, Sequences, FiniteSets, TLC, Json, IOUtils
K == INSTANCE KzAlphabet WITH NM <- 32, LB <- 5, alpha <- {}
Trace == ndJsonDeserialize(IOEnv.TRACE_FILE)
VARIABLES l
Init == l = 1
Set(s) == {s[i] : i \in 1..Len(s)}
Bad(e) == IF e.encErr # "" \/ e.decErr # "" THEN "C12_alphabet_header_fails"
          ELSE IF e.dec # e.alpha \/ e.decRet # Len(e.alpha) \/ e.encRet # Len(e.alpha) THEN "C12_alphabet_differs"
          ELSE IF e.used # Len(e.bits) \/ ~e.sentinel THEN "C12_alphabet_bits_differ"
          ELSE "none"
Next == /\ l <= Len(Trace)
        /\ l' = l + 1
        /\ LET e == Trace[l] IN
             /\ (e.ev = "ALPHA" /\ Bad(e) # "none") => PrintT(<<"VIOLATION_AT", l, Bad(e)>>)
             /\ (e.ev = "ALPHA" /\ Bad(e) = "none" /\ e.bits # K!Enc(Set(e.alpha))) => PrintT(<<"DRIFT_AT", l>>)
             /\ (e.ev = "ALPHA" /\ Bad(e) = "none" /\ K!Dec(e.bits \o <<0, 0>>) # <<e.alpha, Len(e.bits)>>) => PrintT(<<"DRIFT_AT", l>>)
Spec == Init /\ [][Next]_l
Consumed == TLCGet("stats").diameter - 1 = Len(Trace)
=============================================================================
