---------------------------- MODULE KzSequence ----------------------------
(***************************************************************************)
(* transform.ByteTransformSequence.Forward / Inverse (v2/transform/        *)
(* Sequence.go) and the mode / skip-flag bytes of a block (encode / decode *)
(* in v2/io/CompressedStream.go), over abstract stages.                    *)
(*                                                                         *)
(* A block is a symbolic value: the original block is <<>>, applying stage *)
(* i to d gives <<i>> \o d (a stack of applied stages); the inverse of     *)
(* stage i pops i, on anything else it yields garbage.  Lengths are        *)
(* abstract: the block has length L0, an applied stage changes it by its   *)
(* delta (header-adding stages expand, compressing stages shrink).  The    *)
(* decompressor runs the inverse sequence in buffers of length L0 + Pad.   *)
(*                                                                         *)
(* Stage outcomes: "apply" | "decline" (error, input untouched: the        *)
(* contract) | "dirty" (error after having written into its input: a       *)
(* breach of the contract, used to show that the clause is necessary).     *)
(*                                                                         *)
(* Impl = "asis": commit 76efab5.  Impl = "fixed": Forward stops stacking  *)
(* stages once the block has grown beyond the room the decoder guarantees. *)
(***************************************************************************)
EXTENDS Integers, Sequences, FiniteSets, TLC

CONSTANTS N,        \* number of stages of the chain (1..8)
          L0,       \* block length
          Pad,      \* extra room of the decoder's buffers (512 bytes in the code)
          Deltas,   \* set of length changes a stage may cause
          Outcomes, \* set of outcomes a stage may have
          Impl

Stages == 1..N
Bit(i) == CASE i = 1 -> 128 [] i = 2 -> 64 [] i = 3 -> 32 [] i = 4 -> 16 [] i = 5 -> 8 [] i = 6 -> 4 [] i = 7 -> 2 [] i = 8 -> 1

(***************************************************************************)
(* Forward: returns [data, len, skip (set of skipped stages), loc (which   *)
(* buffer holds the result), corrupt]                                      *)
(***************************************************************************)
RECURSIVE Fwd(_, _, _, _, _, _, _)
Fwd(i, oc, dl, data, len, skip, st) ==
    \* st = [swaps, corrupt]
    IF i > N THEN [data |-> data, len |-> len, skip |-> skip, swaps |-> st.swaps, corrupt |-> st.corrupt]
    ELSE IF Impl = "fixed" /\ len > L0 + Pad THEN
         \* (DEV) do not stack another transform on an expanded block
         Fwd(i + 1, oc, dl, data, len, skip \cup {i}, st)
    ELSE IF oc[i] = "apply" THEN
         Fwd(i + 1, oc, dl, <<i>> \o data, len + dl[i], skip, [st EXCEPT !.swaps = @ + 1])
    ELSE IF oc[i] = "decline" THEN
         Fwd(i + 1, oc, dl, data, len, skip \cup {i}, st)
    ELSE \* "dirty": the stage reports an error but has modified its input buffer
         Fwd(i + 1, oc, dl, <<0>> \o data, len, skip \cup {i}, [st EXCEPT !.corrupt = TRUE])

Forward(oc, dl) == Fwd(1, oc, dl, <<>>, L0, {}, [swaps |-> 0, corrupt |-> FALSE])

\* the skip flags byte (bit 7 = first stage; unused stages read as skipped)
RECURSIVE FlagSum(_, _)
FlagSum(skip, i) == IF i > 8 THEN 0 ELSE (IF i \in skip \/ i > N THEN Bit(i) ELSE 0) + FlagSum(skip, i + 1)
SkipByte(skip) == FlagSum(skip, 1)

(***************************************************************************)
(* The mode byte  (encode l.871-878, decode l.1878-1890):  with at most 4  *)
(* transforms the upper nibble of the skip flags travels in the low nibble *)
(* of the mode byte, otherwise a full byte follows.                        *)
(***************************************************************************)
ModeBytes(skipByte) == IF N <= 4 THEN <<skipByte \div 16>> ELSE <<16, skipByte>>
SkipFromMode(mb) == IF (mb[1] \div 16) % 2 = 1 THEN mb[2] ELSE (mb[1] % 16) * 16 + 15
SkipSet(b) == {i \in 1..8 : (b \div Bit(i)) % 2 = 1}

(***************************************************************************)
(* Inverse: the stages that were not skipped, last to first, each into a   *)
(* buffer of length L0 + Pad.  Returns [data, len, overflow]               *)
(***************************************************************************)
RECURSIVE Inv(_, _, _, _, _, _)
Inv(i, dl, skip, data, len, ovf) ==
    IF i < 1 THEN [data |-> data, len |-> len, overflow |-> ovf]
    ELSE IF i \in skip THEN Inv(i - 1, dl, skip, data, len, ovf)
    ELSE LET newLen == len - dl[i]
             newData == IF data # <<>> /\ Head(data) = i THEN Tail(data) ELSE <<-1>> \o data
         IN Inv(i - 1, dl, skip, newData, newLen, ovf \/ newLen > L0 + Pad)

VARIABLES oc, dl
Init == oc \in [Stages -> Outcomes] /\ dl \in [Stages -> Deltas]
Next == UNCHANGED <<oc, dl>>
Spec == Init /\ [][Next]_<<oc, dl>>

F == Forward(oc, dl)
SkipDecoded == SkipSet(SkipFromMode(ModeBytes(SkipByte(F.skip)))) \cap Stages
I == Inv(N, dl, SkipDecoded, F.data, F.len, FALSE)

Honest == \A i \in Stages : oc[i] # "dirty"

\* the skip flags survive the mode byte
FlagsRoundTrip == SkipDecoded = F.skip
\* bit i set <=> stage i not applied
FlagsMeaning == \A i \in Stages : (i \in F.skip) <=> (i \notin {F.data[k] : k \in 1..Len(F.data)})
\* C13/C01: if every stage honours its contract, the inverse sequence restores the block in the decoder's buffers
RoundTrip == Honest => (~I.overflow /\ I.data = <<>> /\ I.len = L0)
\* necessity of the clean-decline clause: reachable corruption when a stage declines dirty (expected to FAIL when
\* "dirty" is in Outcomes: used as a witness, not as a requirement)
NoCorruption == ~F.corrupt
=============================================================================
