----------------------------- MODULE KzReader -----------------------------
(***************************************************************************)
(* Reader.Read / Close / processBlock / decodingTask.decode of             *)
(* v2/io/CompressedStream.go, one action per critical section.             *)
(*                                                                         *)
(* Abstract data: a byte is <<block, offset>>; a byte of a block that      *)
(* decoded to garbage is <<block, -offset>>; a never-written buffer cell   *)
(* is <<0,0>>.  The wire is a sequence of block kinds:                     *)
(*   "ok"   decodes to its original content                                *)
(*   "crc"  decodes to garbage of the right length, the checksum catches it*)
(*   "fail" the codec reports an error, nothing is decoded                 *)
(*   "eos"  the end marker                                                 *)
(* and reading beyond the end of the sequence is a truncated stream (the   *)
(* bitstream panics, the task converts it into an error).                  *)
(*                                                                         *)
(* Impl = "asis" is the code as found at commit 76efab5; Impl = "fixed" is *)
(* the code after the fix: commits (sticky error, failed batch not exposed,*)
(* publish by CAS).  Deviations are confined to the places marked (DEV).   *)
(***************************************************************************)
EXTENDS Integers, Sequences, FiniteSets, TLC, SequencesExt

CONSTANTS Jobs,      \* configured number of jobs
          B,         \* block size in abstract bytes
          Kinds,     \* the wire: sequence of block kinds
          LastSz,    \* size of the last data block (1..B)
          ReadLens,  \* set of buffer lengths the caller may pass to Read
          HintBlocks,\* nbInputBlocks from the header (0 = unknown)
          From, To,  \* block range [From, To); 0,0 = no range
          Impl,      \* "asis" | "fixed"
          MaxPost    \* number of extra API calls allowed after EOF / error

CANCEL == -1
NB == Len(Kinds)
Min2(a, b) == IF a < b THEN a ELSE b

\* index of the last data block (the one that may be short)
LastData == IF NB > 0 /\ Kinds[NB] = "eos" THEN NB - 1 ELSE NB
Sz(i) == IF i = LastData THEN LastSz ELSE B

Good(i) == [k \in 1..Sz(i) |-> <<i, k>>]
Garb(i) == [k \in 1..Sz(i) |-> <<i, 0 - k>>]

InRange(i) == (From = 0 \/ i >= From) /\ (To = 0 \/ i < To)

\* what a correct reader delivers: the in-range blocks up to the first block that is not "ok"
RECURSIVE Exp(_)
Exp(i) == IF i > NB \/ Kinds[i] # "ok" THEN <<>>
          ELSE (IF InRange(i) THEN Good(i) ELSE <<>>) \o Exp(i + 1)
Expected == Exp(1)

\* the stream is complete and undamaged
Clean == NB > 0 /\ Kinds[NB] = "eos" /\ \A i \in 1..(NB - 1) : Kinds[i] = "ok"

NbTasks == IF Jobs > 1 /\ HintBlocks > 0 THEN Min2(Jobs, HintBlocks) ELSE Jobs
Tasks == 0..(NbTasks - 1)

VARIABLES counter,    \* Reader.blockID, shared by the tasks
          tpc,        \* task program counters
          tres,       \* task results
          spos,       \* next wire block to be read from the shared stream
          bufs,       \* Reader.buffers[0..Jobs-1] (contents persist across batches)
          avail,      \* Reader.available
          cons,       \* Reader.consumed
          out,        \* every byte returned to the caller so far
          rpc,        \* program counter of the API call in progress
          rem, got,   \* remaining / delivered in the current Read
          sticky,     \* (fixed) Reader.err
          closed,
          batchFirst, \* blockID when the current batch was started
          lastRet,    \* [n, err] of the last completed API call; err in {"none","eof","err","closed"}
          errSeen, eofSeen, outAtErr, post

vars == <<counter, tpc, tres, spos, bufs, avail, cons, out, rpc, rem, got, sticky, closed,
          batchFirst, lastRet, errSeen, eofSeen, outAtErr, post>>

NoRes == [err |-> FALSE, dec |-> 0, data |-> <<>>, skipped |-> FALSE, blk |-> 0]

Init == /\ counter = 0
        /\ tpc = [t \in Tasks |-> "idle"]
        /\ tres = [t \in Tasks |-> NoRes]
        /\ spos = 1
        /\ bufs = [t \in 0..(Jobs - 1) |-> <<>>]
        /\ avail = 0 /\ cons = 0
        /\ out = <<>>
        /\ rpc = "idle" /\ rem = 0 /\ got = 0
        /\ sticky = FALSE /\ closed = FALSE
        /\ batchFirst = 0
        /\ lastRet = [n |-> 0, err |-> "none"]
        /\ errSeen = FALSE /\ eofSeen = FALSE /\ outAtErr = 0 /\ post = 0

Id(t) == batchFirst + t + 1

(***************************************************************************)
(* API: Read, Close                                                        *)
(***************************************************************************)
Return(n, e, olen) ==
    /\ rpc' = "idle"
    /\ lastRet' = [n |-> n, err |-> e]
    /\ errSeen' = (errSeen \/ e = "err")
    /\ eofSeen' = (eofSeen \/ e = "eof")
    /\ outAtErr' = IF e = "err" /\ ~errSeen THEN olen ELSE outAtErr

ReadBegin(n) ==                                          \* l.1556-1566
    /\ rpc = "idle"
    /\ (errSeen \/ eofSeen \/ closed) => post < MaxPost
    /\ post' = IF errSeen \/ eofSeen \/ closed THEN post + 1 ELSE post
    /\ IF closed THEN
          /\ Return(0, "closed", Len(out)) /\ UNCHANGED <<rem, got, out>>
       ELSE IF Impl = "fixed" /\ sticky THEN              \* (DEV) sticky error
          /\ Return(0, "err", Len(out)) /\ UNCHANGED <<rem, got, out>>
       ELSE IF n = 0 THEN
          /\ Return(0, "none", Len(out)) /\ UNCHANGED <<rem, got, out>>
       ELSE
          /\ rem' = n /\ got' = 0 /\ rpc' = "loop"
          /\ UNCHANGED <<lastRet, errSeen, eofSeen, outAtErr, out>>
    /\ UNCHANGED <<counter, tpc, tres, spos, bufs, avail, cons, sticky, closed, batchFirst>>

Slice(bid, off, len) ==
    [k \in 1..len |-> IF bid \in DOMAIN bufs /\ off + k <= Len(bufs[bid]) THEN bufs[bid][off + k] ELSE <<0, 0>>]

\* one iteration of the for loop of Read up to the point where it needs a new batch  (l.1568-1609)
ReadLoop ==
    /\ rpc = "loop"
    /\ IF rem = 0 THEN
          /\ Return(got, "none", Len(out))
          /\ UNCHANGED <<out, avail, cons, rem, got>>
       ELSE
          LET bufOff == cons % B
              bufID  == cons \div B
              len    == Min2(rem, Min2(avail, B - bufOff))
          IN IF len > 0 THEN
                /\ out' = out \o Slice(bufID, bufOff, len)
                /\ avail' = avail - len /\ cons' = cons + len
                /\ rem' = rem - len /\ got' = got + len
                /\ IF avail' > 0 /\ bufOff + len >= B THEN
                      rpc' = "loop" /\ UNCHANGED <<lastRet, errSeen, eofSeen, outAtErr>>
                   ELSE IF rem' = 0 THEN Return(got', "none", Len(out'))
                   ELSE IF avail' = 0 THEN
                      rpc' = "decode" /\ UNCHANGED <<lastRet, errSeen, eofSeen, outAtErr>>
                   ELSE rpc' = "loop" /\ UNCHANGED <<lastRet, errSeen, eofSeen, outAtErr>>
             ELSE
                /\ rpc' = IF avail = 0 THEN "decode" ELSE "loop"
                /\ UNCHANGED <<out, avail, cons, rem, got, lastRet, errSeen, eofSeen, outAtErr>>
    /\ UNCHANGED <<counter, tpc, tres, spos, bufs, sticky, closed, batchFirst, post>>

\* processBlock entry: returns (0,nil) when the token is CANCEL, otherwise starts a batch (l.1614-1693)
StartBatch ==
    /\ rpc = "decode"
    /\ IF counter = CANCEL THEN
          /\ avail' = 0
          /\ IF got = 0 THEN Return(0, "eof", Len(out)) ELSE Return(got, "none", Len(out))
          /\ UNCHANGED <<tpc, tres, batchFirst, out>>
       ELSE
          /\ batchFirst' = counter
          /\ tpc' = [t \in Tasks |-> "wait"]
          /\ tres' = [t \in Tasks |-> NoRes]
          /\ rpc' = "join"
          /\ UNCHANGED <<avail, lastRet, errSeen, eofSeen, outAtErr, out>>
    /\ UNCHANGED <<counter, spos, bufs, cons, rem, got, sticky, closed, post>>

\* the in-order scan of the results after wg.Wait()  (l.1698-1743)
RECURSIVE Scan(_, _, _, _)
Scan(t, n, dec, bf) ==
    IF t >= NbTasks THEN [dec |-> dec, err |-> FALSE, bufs |-> bf, n |-> n]
    ELSE IF tres[t].skipped THEN Scan(t + 1, n, dec, bf)
    ELSE IF tres[t].err THEN [dec |-> dec + tres[t].dec, err |-> TRUE, bufs |-> bf, n |-> n]
    ELSE Scan(t + 1, n + 1, dec + tres[t].dec, [bf EXCEPT ![n] = tres[t].data])

NbSkipped == Cardinality({t \in Tasks : tres[t].skipped})

Join ==
    /\ rpc = "join"
    /\ \A t \in Tasks : tpc[t] = "done"
    /\ LET \* the data of task t lives in buffers[t] (its iBuffer) before the scan compacts it
           bf0 == [b \in 0..(Jobs - 1) |-> IF b \in Tasks /\ tres[b].data # <<>> THEN tres[b].data ELSE bufs[b]]
           r == Scan(0, 0, 0, bf0)
       IN /\ bufs' = r.bufs
          /\ IF r.err THEN
                /\ IF Impl = "asis"
                   THEN avail' = r.dec /\ UNCHANGED <<cons, sticky>>        \* (DEV) failed batch exposed, consumed stale
                   ELSE avail' = 0 /\ sticky' = TRUE /\ UNCHANGED cons
                /\ Return(got, "err", Len(out))
                /\ tpc' = [t \in Tasks |-> "idle"]
                /\ UNCHANGED <<batchFirst, tres>>
             ELSE IF NbSkipped = NbTasks THEN
                \* every block of the batch was skipped: run another batch  (l.1737)
                /\ batchFirst' = counter
                /\ tpc' = [t \in Tasks |-> "wait"]
                /\ tres' = [t \in Tasks |-> NoRes]
                /\ UNCHANGED <<avail, cons, sticky, rpc, lastRet, errSeen, eofSeen, outAtErr>>
             ELSE
                /\ cons' = 0 /\ avail' = r.dec
                /\ tpc' = [t \in Tasks |-> "idle"]
                /\ UNCHANGED <<sticky, batchFirst, tres>>
                /\ IF r.dec = 0
                   THEN IF got = 0 THEN Return(0, "eof", Len(out)) ELSE Return(got, "none", Len(out))
                   ELSE rpc' = "loop" /\ UNCHANGED <<lastRet, errSeen, eofSeen, outAtErr>>
    /\ UNCHANGED <<counter, spos, out, rem, got, closed, post>>

Close ==                                                  \* l.1526-1551
    /\ rpc = "idle"
    /\ (errSeen \/ eofSeen \/ closed) => post < MaxPost
    /\ post' = IF errSeen \/ eofSeen \/ closed THEN post + 1 ELSE post
    /\ closed' = TRUE
    /\ avail' = IF closed THEN avail ELSE 0
    /\ lastRet' = [n |-> 0, err |-> "none"]
    /\ UNCHANGED <<counter, tpc, tres, spos, bufs, cons, out, rpc, rem, got, sticky, batchFirst,
                   errSeen, eofSeen, outAtErr>>

(***************************************************************************)
(* decodingTask.decode                                                     *)
(***************************************************************************)
TaskUnch == <<bufs, avail, cons, out, rpc, rem, got, sticky, closed, batchFirst, lastRet,
              errSeen, eofSeen, outAtErr, post>>

\* the spin loop: leaves when the token is ours or CANCEL  (l.1799-1813)
Wait(t) ==
    /\ tpc[t] = "wait"
    /\ \/ /\ counter = CANCEL /\ tpc' = [tpc EXCEPT ![t] = "fin"]
       \/ /\ counter # CANCEL /\ counter = Id(t) - 1 /\ tpc' = [tpc EXCEPT ![t] = "shared"]
    /\ UNCHANGED <<counter, tres, spos>> /\ UNCHANGED TaskUnch

\* read the frame from the shared bitstream  (l.1816-1852)
Shared(t) ==
    /\ tpc[t] = "shared"
    /\ IF spos > NB THEN                                  \* truncated: ReadBits/ReadArray panic
          /\ tres' = [tres EXCEPT ![t].err = TRUE]
          /\ tpc' = [tpc EXCEPT ![t] = "fin"]
          /\ UNCHANGED spos
       ELSE IF Kinds[spos] = "eos" THEN                    \* read == 0
          /\ tpc' = [tpc EXCEPT ![t] = "fin"]
          /\ UNCHANGED <<tres, spos>>
       ELSE
          /\ spos' = spos + 1
          /\ tpc' = [tpc EXCEPT ![t] = "publish"]
          /\ tres' = [tres EXCEPT ![t].blk = spos]
    /\ UNCHANGED counter /\ UNCHANGED TaskUnch

\* hand the token to the next task  (l.1856)
Publish(t) ==
    /\ tpc[t] = "publish"
    /\ counter' = IF Impl = "asis" \/ counter = Id(t) - 1 THEN Id(t) ELSE counter   \* (DEV) Store vs CAS
    /\ tpc' = [tpc EXCEPT ![t] = "decode"]
    /\ UNCHANGED <<tres, spos>> /\ UNCHANGED TaskUnch

\* skip test, entropy decoding, inverse transform, checksum  (l.1858-2011)
Decode(t) ==
    /\ tpc[t] = "decode"
    /\ LET i == tres[t].blk
           k == Kinds[i]
       IN tres' = [tres EXCEPT ![t] =
              IF ~InRange(Id(t)) THEN [@ EXCEPT !.skipped = TRUE]
              ELSE CASE k = "ok"   -> [@ EXCEPT !.dec = Sz(i), !.data = Good(i)]
                     [] k = "crc"  -> [@ EXCEPT !.err = TRUE, !.dec = Sz(i), !.data = Garb(i)]
                     [] k = "fail" -> [@ EXCEPT !.err = TRUE]]
    /\ tpc' = [tpc EXCEPT ![t] = "fin"]
    /\ UNCHANGED <<counter, spos>> /\ UNCHANGED TaskUnch

\* the deferred function  (l.1770-1796)
Fin(t) ==
    /\ tpc[t] = "fin"
    /\ IF tres[t].err \/ (tres[t].dec = 0 /\ ~tres[t].skipped)
       THEN counter' = CANCEL
       ELSE IF counter = Id(t) - 1 THEN counter' = Id(t) ELSE UNCHANGED counter
    /\ tpc' = [tpc EXCEPT ![t] = "done"]
    /\ UNCHANGED <<tres, spos>> /\ UNCHANGED TaskUnch

TaskStep(t) == Wait(t) \/ Shared(t) \/ Publish(t) \/ Decode(t) \/ Fin(t)

\* the caller stops calling: explicit stuttering so that TLC's deadlock check means "somebody is stuck"
Terminated == /\ rpc = "idle" /\ (errSeen \/ eofSeen \/ closed) /\ post >= MaxPost
              /\ UNCHANGED vars

Next == \/ \E n \in ReadLens : ReadBegin(n)
        \/ ReadLoop \/ StartBatch \/ Join \/ Close
        \/ \E t \in Tasks : TaskStep(t)
        \/ Terminated

Spec == Init /\ [][Next]_vars
FairSpec == Spec /\ WF_vars(ReadLoop) /\ WF_vars(StartBatch) /\ WF_vars(Join)
                 /\ \A t \in Tasks : WF_vars(TaskStep(t))

(***************************************************************************)
(* Properties                                                              *)
(***************************************************************************)
Holders == {t \in Tasks : tpc[t] \in {"shared", "publish"}}

TypeOK == /\ counter \in (0..(NB + Jobs + 1)) \cup {CANCEL}
          /\ avail >= 0 /\ cons >= 0 /\ rem >= 0

\* C07: one task at a time on the shared stream
R_Mutex == Cardinality(Holders) <= 1
\* C07/C05: task with id k reads wire block k
R_ReadOrder == \A t \in Tasks : tpc[t] \in {"publish", "decode"} => tres[t].blk = Id(t)
\* C05/C02/C11/C01: the caller only ever sees the expected bytes, in order
R_Prefix == IsPrefix(out, Expected)
\* C02/C05/C09: after an error was returned nothing more is delivered and EOF is not reported in its place
R_NothingAfterError == errSeen => (Len(out) = outAtErr /\ ~eofSeen)
\* C09/C08: a clean EOF is reported only for a complete undamaged stream, entirely delivered
R_EOFOnlyAtEnd == eofSeen => (Clean /\ out = Expected)
\* C11: skipped blocks are never decoded
R_SkipUntouched == \A t \in Tasks : tres[t].dec > 0 => InRange(Id(t))
\* C07: once a failure is published no task starts reading the stream
\* (checked as an action property below)
R_CancelSticks == [][\A t \in Tasks : (counter = CANCEL /\ tpc[t] = "wait") => tpc'[t] # "shared"]_vars
\* C18: ownership. Tasks exist only while the caller waits in the join; each task owns the buffers of its slot.
R_Ownership == rpc # "join" => \A t \in Tasks : tpc[t] = "idle"
\* C17
R_ClosedRefuses == (closed /\ rpc = "idle" /\ lastRet.err # "none") => lastRet.err = "closed"
\* C03/C07 liveness: every call returns, every task finishes
R_CallsReturn == (rpc # "idle") ~> (rpc = "idle")
R_TasksFinish == \A t \in Tasks : (tpc[t] = "wait") ~> (tpc[t] \in {"done", "idle"})
\* Complete streams are entirely delivered before EOF (C01/C05)
R_CompleteAtEOF == (eofSeen /\ ~errSeen) => out = Expected
=============================================================================
