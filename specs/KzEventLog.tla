----------------------------- MODULE KzEventLog -----------------------------
(***************************************************************************)
(* Pure operators over a listener log: a sequence of records [t, id] in    *)
(* the order in which a kanzi.Listener receives them.  Shared by the       *)
(* design spec KzEvents and by the judge Trace_Events, so that the real    *)
(* logs are held to literally the same formulas TLC checks on the design.  *)
(*   t: 2 BEFORE_TRANSFORM  3 AFTER_TRANSFORM  4 BEFORE_ENTROPY            *)
(*      5 AFTER_ENTROPY     8 AFTER_HEADER_DECODING                        *)
(***************************************************************************)
EXTENDS Integers, Sequences

\* phases of one block, in the order the code emits them
Canon(side) == IF side = "w" THEN <<2, 3, 4, 5>> ELSE <<4, 5, 2, 3>>

\* events of block b, in log order
OfBlock(log, b) == SelectSeq(log, LAMBDA e : e.id = b /\ e.t \in {2, 3, 4, 5})

IsPrefixOf(s, t) == Len(s) <= Len(t) /\ \A i \in 1..Len(s) : s[i] = t[i]

Types(s) == [i \in 1..Len(s) |-> s[i].t]

\* every block goes through its phases in the canonical order, each phase at most once
PerBlockOrder(log, side, ids) == \A b \in ids : IsPrefixOf(Types(OfBlock(log, b)), Canon(side))

\* a block of the data (not the end marker or a cancelled task) has all its phases when the stream is complete
Complete(log, side, ids) == \A b \in ids : Types(OfBlock(log, b)) = Canon(side)

\* the reader hands blocks over (AFTER_TRANSFORM, from the goroutine calling Read) in increasing order without gaps
Deliveries(log) == SelectSeq(log, LAMBDA e : e.t = 3)
DeliveryOrdered(log, firstId) == LET d == Deliveries(log) IN \A i \in 1..Len(d) : d[i].id = firstId + i - 1

\* batches never overlap: no event of block b + J before the last phase of block b (a batch has at most J blocks and the
\* next batch starts after the join)
LastPhase(side) == Canon(side)[4]
Barrier(log, side, J) ==
    \A i \in 1..Len(log) : \A b \in 1..(log[i].id - J) :
        log[i].t \in {2, 3, 4, 5} => \E k \in 1..(i - 1) : log[k].id = b /\ log[k].t = LastPhase(side)
=============================================================================
