-------------------------- MODULE KzEntropyFrame --------------------------
(***************************************************************************)
(* Framing of the static entropy codecs (HUFFMAN, ANS0/ANS1, RANGE in      *)
(* v2/entropy): raw copy of short blocks, chunk loop, and the chunk header *)
(* that carries the alphabet and all frequencies BUT THE FIRST - the       *)
(* decoder rebuilds the first one as scale minus the sum of the others.    *)
(* This is where C16 (the scaled table sums to the scale) meets C12 (the   *)
(* codecs are inverse pairs): the two tables agree iff the sum is exact.   *)
(* The arithmetic of the coders themselves is not modelled.                *)
(***************************************************************************)
EXTENDS Integers, Sequences, FiniteSets, TLC

CONSTANTS Impl,       \* "asis" | "fixed": which NormalizeFrequencies the encoder uses
          Codec,      \* "ANS0" | "RANGE" | "HUFFMAN"
          Lens,       \* block lengths to examine
          Hists,      \* set of compact histograms (sequences of counts) standing for chunk contents
          LogRange    \* log2 of the scale requested by the caller

NF == INSTANCE KzNormFreq WITH MaxRare <- 0, MaxDom <- 0, Bigs <- {}, LRs <- {}, MaxLen <- 0, Menu <- {},
                               Fam <- "A", hist <- <<>>, lr <- 0, res <- <<>>

RawThreshold == 32                       \* blocks of at most 32 bytes are copied raw (ANS, RANGE; HUFFMAN too)
ChunkSize == IF Codec = "RANGE" THEN 32768 ELSE 16384
NbChunks(len) == IF len <= RawThreshold THEN 0 ELSE (len + ChunkSize - 1) \div ChunkSize
Path(len) == IF len <= RawThreshold THEN "raw" ELSE "chunks"

\* RANGE lowers the scale for small chunks (RangeCodec.go: lr = min(logRange, max(8, log2(size)-?))): abstracted as
\* "the scale is at least 256 and at most 2^LogRange"
RECURSIVE Pow2(_)
Pow2(n) == IF n = 0 THEN 1 ELSE 2 * Pow2(n - 1)
Scale == Pow2(LogRange)

\* encoder side: the table of a chunk
EncTable(h) == NF!Normalize(Impl, h, NF!Sum(h), Scale)
\* what travels in the chunk header: every frequency but the first
Header(t) == Tail(t)
\* decoder side: the first frequency is rebuilt from the scale
DecTable(hd) == <<Scale - NF!Sum(hd)>> \o hd

VARIABLES h, len
Init == h \in Hists /\ len \in Lens
Next == UNCHANGED <<h, len>>
Spec == Init /\ [][Next]_<<h, len>>

\* the decoder's table equals the encoder's iff the encoder's table sums to the scale
SyncIffValid == (DecTable(Header(EncTable(h))) = EncTable(h)) <=> (NF!Sum(EncTable(h)) = Scale)
\* C12 at the framing level: encoder and decoder always agree on the table (needs C16)
TablesAgree == Len(h) >= 2 => DecTable(Header(EncTable(h))) = EncTable(h)
\* every block length takes exactly one path and the chunks cover it
Covers == (Path(len) = "raw" /\ NbChunks(len) = 0) \/ (Path(len) = "chunks" /\ (NbChunks(len) - 1) * ChunkSize < len /\ len <= NbChunks(len) * ChunkSize)
=============================================================================
