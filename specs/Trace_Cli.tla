------------------------------ MODULE Trace_Cli ------------------------------
(***************************************************************************)
(* Judge for C19 over facts recorded from runs of the real command line    *)
(* tool (built from the working tree).                                     *)
(*  RUN     begins a run: id, rm, force                                    *)
(*  SYS     one system call of the run, from strace -f -y, mapped to a     *)
(*          (source, output) pair of the run:                              *)
(*            call "openw"  role   (a file opened for writing)             *)
(*            call "write"  role, pair, n                                  *)
(*            call "unlink" role, pair                                     *)
(*          role is "src" (an input file of the run), "out" (its output)   *)
(*  FINAL   pair, size  (size of the output when the run has ended)        *)
(*  Every prefix of the SYS sequence is a point where the process may be   *)
(*  killed: CrashSafe must hold after each event.                          *)
(*  TREE    exitc, exitd, equal  (fault free compress + decompress)        *)
(*  CLOBBER exit, same  (an output existed and -f was not given)           *)
(*  SELFIN  exit, same  (the output designates the input)                  *)
(*  INPUTS  same  (inputs unchanged after a run without --rm)              *)
(*  DAMAGED exit, equal  (decompression of a stream with a damaged block)  *)
(*  KILL    ok  (after a real SIGKILL: every source exists intact or its   *)
(*          output decodes to it)                                          *)
(***************************************************************************)
EXTENDS Integers, Sequences, FiniteSets, TLC, Json, IOUtils

Trace == ndJsonDeserialize(IOEnv.TRACE_FILE)

VARIABLES l, rm, written, unlinked, pending
vars == <<l, rm, written, unlinked, pending>>
\* written: pair -> bytes written to its output so far; unlinked: pairs whose source is gone;
\* pending: <<pair, bytes written at unlink time>> to be compared with the final size
Init == l = 1 /\ rm = FALSE /\ written = <<>> /\ unlinked = {} /\ pending = <<>>

W(p) == IF \E i \in 1..Len(written) : written[i][1] = p
        THEN (LET i == CHOOSE i \in 1..Len(written) : written[i][1] = p IN written[i][2]) ELSE 0
SetW(p, v) == IF \E i \in 1..Len(written) : written[i][1] = p
              THEN [i \in 1..Len(written) |-> IF written[i][1] = p THEN <<p, v>> ELSE written[i]]
              ELSE Append(written, <<p, v>>)
AtUnlink(p) == LET i == CHOOSE i \in 1..Len(pending) : pending[i][1] = p IN pending[i][2]

Bad(e) ==
    CASE e.ev = "SYS" /\ e.call = "openw" /\ e.role = "src" -> "C19_input_opened_for_writing"
      [] e.ev = "SYS" /\ e.call = "write" /\ e.role = "src" -> "C19_writes_to_input"
      [] e.ev = "SYS" /\ e.call = "unlink" /\ e.role = "src" /\ ~rm -> "C19_input_removed_without_rm"
      [] e.ev = "SYS" /\ e.call = "unlink" /\ e.role = "out" -> "C19_output_removed"
      \* CrashSafe: once the source is gone nothing may be missing from the output
      [] e.ev = "SYS" /\ e.call = "write" /\ e.role = "out" /\ e.pair \in unlinked -> "C19_output_written_after_source_removed"
      [] e.ev = "FINAL" /\ e.pair \in unlinked /\ AtUnlink(e.pair) # e.size -> "C19_source_removed_before_output_complete"
      [] e.ev = "TREE" /\ ~(e.exitc = 0 /\ e.exitd = 0 /\ e.equal) -> "C19_tree_round_trip"
      [] e.ev = "CLOBBER" /\ ~(e.same /\ e.exit # 0) -> "C19_overwrites_existing_file"
      [] e.ev = "SELFIN" /\ ~(e.same /\ e.exit # 0) -> "C19_writes_to_own_input"
      [] e.ev = "INPUTS" /\ ~e.same -> "C19_input_modified"
      [] e.ev = "KILL" /\ ~e.ok -> "C19_kill_loses_data"
      \* C02 at the command line: a checksummed stream with a damaged block payload either fails (exit # 0) or comes back intact
      [] e.ev = "DAMAGED" /\ e.exit = 0 /\ ~e.equal -> "C02_cli_delivers_wrong_bytes_as_success"
      [] OTHER -> "none"

Next == /\ l <= Len(Trace)
        /\ l' = l + 1
        /\ LET e == Trace[l] IN
             /\ rm' = IF e.ev = "RUN" THEN e.rm ELSE rm
             /\ written' = IF e.ev = "RUN" THEN <<>>
                           ELSE IF e.ev = "SYS" /\ e.call = "write" /\ e.role = "out" THEN SetW(e.pair, W(e.pair) + e.n) ELSE written
             /\ unlinked' = IF e.ev = "RUN" THEN {}
                            ELSE IF e.ev = "SYS" /\ e.call = "unlink" /\ e.role = "src" THEN unlinked \cup {e.pair} ELSE unlinked
             /\ pending' = IF e.ev = "RUN" THEN <<>>
                           ELSE IF e.ev = "SYS" /\ e.call = "unlink" /\ e.role = "src" THEN Append(pending, <<e.pair, W(e.pair)>>) ELSE pending
             /\ Bad(e) # "none" => PrintT(<<"VIOLATION_AT", l, Bad(e)>>)
Spec == Init /\ [][Next]_vars
Consumed == TLCGet("stats").diameter - 1 = Len(Trace)
=============================================================================
