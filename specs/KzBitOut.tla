------------------------------ MODULE KzBitOut ------------------------------
(***************************************************************************)
(* bitstream.DefaultOutputBitStream (v2/bitstream/DefaultOutputBitStream.go)*)
(* transcribed path by path: the 64-bit accumulator `current`, availBits,  *)
(* the byte buffer with its position, flush to the sink, the aligned and   *)
(* unaligned bulk paths of WriteArray, Close.                              *)
(*                                                                         *)
(* Bits are IDENTITIES: the k-th bit ever written is the number k, a zero  *)
(* bit that was never written is 0, and -1 is the OR of two different      *)
(* bits (corruption).  A 64-bit word is a function 1..64 -> id, slot 1     *)
(* being the most significant bit, so the shifts and ORs of the code are   *)
(* transcribed literally; a stale shift count shows up as a misplaced id.  *)
(* The reference (KzBitVec) is trivial: after n bits the byte image must   *)
(* be <<1, 2, ..., n>> padded with zeros, and Written() must be n.         *)
(***************************************************************************)
EXTENDS Integers, Sequences, TLC

CONSTANTS BUF,       \* size of the internal buffer in bytes (multiple of 8; the code requires >= 1024, the thresholds
                     \* it uses are 8 and 32 bytes before the end, so 64 exhibits every path)
          MaxBits,   \* stop when that many bits have been written
          BitsOps,   \* counts offered to WriteBits
          ArrOps,    \* bit counts offered to WriteArray
          FailFlush, \* set of flush numbers (1-based) at which the sink fails (the code panics)
          PartialFlush, \* subset of FailFlush: at these the sink first accepts half of the bytes, then reports the error
          PartialImpl,  \* "latch": the stream stays failed after a partial write (the code); "resend": as found before fix F13 (the
                        \* whole buffer is offered again); "resume": keep the remainder, count the accepted bytes (seed C17c)
          CloseImpl  \* "asis": a failed Close restores the accumulator fields but not `written` (F19); "fixed": all of them

X == -1
ZeroW == [i \in 1..64 |-> 0]
Or(a, b) == [i \in 1..64 |-> IF a[i] = 0 THEN b[i] ELSE IF b[i] = 0 THEN a[i] ELSE IF a[i] = b[i] THEN a[i] ELSE X]
Shl(w, k) == [i \in 1..64 |-> IF i + k <= 64 THEN w[i + k] ELSE 0]      \* w << k  (k >= 64 gives 0, as in Go)
Shr(w, k) == [i \in 1..64 |-> IF i - k >= 1 THEN w[i - k] ELSE 0]      \* w >> k
\* the word whose low `count` bits are the ids first, first+1, ...
Val(first, count) == [i \in 1..64 |-> IF i > 64 - count THEN first + (i - (64 - count)) - 1 ELSE 0]
WordSeq(w) == [i \in 1..64 |-> w[i]]
Ids(first, n) == [k \in 1..n |-> first + k - 1]

VARIABLES cur, avail, pos, buf, written, sink, closed, n, flushes, status, latch
vars == <<cur, avail, pos, buf, written, sink, closed, n, flushes, status, latch>>
\* buf: the bits of buffer[0:position] (8*pos ids); n: bits written so far by the caller; status: "ok" | "panic"

Init == /\ cur = ZeroW /\ avail = 64 /\ pos = 0 /\ buf = <<>> /\ written = 0 /\ sink = <<>> /\ closed = FALSE
        /\ n = 0 /\ flushes = 0 /\ status = "ok" /\ latch = FALSE

(***************************************************************************)
(* The state of the stream as a record, so that the helpers compose.       *)
(***************************************************************************)
St == [cur |-> cur, avail |-> avail, pos |-> pos, buf |-> buf, written |-> written, sink |-> sink, flushes |-> flushes, ok |-> TRUE,
       latch |-> latch]

\* flush(): write buffer[0:position] to the sink  (l.214-229)
Flush(s) == IF ~s.ok THEN s
            ELSE IF s.latch THEN [s EXCEPT !.ok = FALSE]                    \* this.failed != nil
            ELSE IF s.pos = 0 THEN s
            ELSE IF (s.flushes + 1) \in PartialFlush THEN
                 \* the sink takes the first half of the buffer (whole bytes) and reports an error
                 LET h == s.pos \div 2
                     taken == [i \in 1..(8 * h) |-> s.buf[i]]
                     rest == [i \in 1..(8 * (s.pos - h)) |-> s.buf[8 * h + i]]
                 IN IF PartialImpl = "resume"
                    THEN [s EXCEPT !.ok = FALSE, !.flushes = s.flushes + 1, !.sink = s.sink \o taken, !.buf = rest, !.pos = s.pos - h,
                                   !.written = s.written + 8 * h]
                    ELSE [s EXCEPT !.ok = FALSE, !.flushes = s.flushes + 1, !.sink = s.sink \o taken,
                                   !.latch = (PartialImpl = "latch" /\ h > 0)]
            ELSE IF (s.flushes + 1) \in FailFlush THEN [s EXCEPT !.ok = FALSE, !.flushes = s.flushes + 1]
            ELSE [s EXCEPT !.sink = s.sink \o s.buf, !.written = s.written + 8 * s.pos, !.pos = 0, !.buf = <<>>, !.flushes = s.flushes + 1]

\* push(val)  (l.202-211)
Push(s, w) == IF ~s.ok THEN s
              ELSE LET s1 == [s EXCEPT !.buf = s.buf \o WordSeq(w), !.pos = s.pos + 8]
                   IN IF s1.pos >= BUF - 8 THEN Flush(s1) ELSE s1

\* WriteBits(value, count) with the value given as a word  (l.78-96)
WBits(s, v, count) ==
    LET c1 == Or(s.cur, Shr(Shl(v, 64 - count), 64 - s.avail))
    IN IF count >= s.avail
       THEN LET remaining == count - s.avail
                s1 == Push([s EXCEPT !.cur = c1], c1)
            IN [s1 EXCEPT !.cur = Shl(v, 64 - remaining), !.avail = 64 - remaining]
       ELSE [s EXCEPT !.cur = c1, !.avail = s.avail - count]

\* byte k (1-based) of an array whose first bit has id `first`, as a word holding its 8 bits in the low byte
ByteW(first, k) == Val(first + 8 * (k - 1), 8)
\* 64-bit big endian word starting at byte k of the array
Word64(first, k) == [i \in 1..64 |-> first + 8 * (k - 1) + i - 1]

(***************************************************************************)
(* WriteArray(bits, count)  (l.101-199).  `first` is the id of the first   *)
(* bit of the array, `start` the index (0-based) of the next byte, `rem`   *)
(* the remaining bit count.                                                *)
(***************************************************************************)
RECURSIVE FillCur(_, _, _, _)       \* aligned: fill up current byte by byte  (l.116-120)
FillCur(s, first, start, rem) ==
    IF s.ok /\ s.avail # 64 /\ rem >= 8
    THEN FillCur(WBits(s, ByteW(first, start + 1), 8), first, start + 1, rem - 8)
    ELSE <<s, start, rem>>

RECURSIVE CopyFlush(_, _, _, _)     \* aligned: copy up to maxPos and flush  (l.125-134)
CopyFlush(s, first, start, rem) ==
    LET maxPos == BUF - 8 IN
    IF s.ok /\ (rem \div 8) >= maxPos - s.pos
    THEN LET k == maxPos - s.pos
             s1 == [s EXCEPT !.buf = s.buf \o Ids(first + 8 * start, 8 * k), !.pos = maxPos]
         IN CopyFlush(Flush(s1), first, start + k, rem - 8 * k)
    ELSE <<s, start, rem>>

RECURSIVE Loop256(_, _, _, _, _, _)  \* unaligned: four words at a time  (l.150-172)
Loop256(s, first, start, rem, r, a) ==
    IF s.ok /\ rem >= 256
    THEN LET v1 == Word64(first, start + 1)  v2 == Word64(first, start + 9)
             v3 == Word64(first, start + 17) v4 == Word64(first, start + 25)
             c1 == Or(s.cur, Shr(v1, r))
             s0 == IF s.pos >= BUF - 32 THEN Flush(s) ELSE s
         IN IF ~s0.ok THEN <<s0, start, rem>>
            ELSE LET s1 == [s0 EXCEPT !.buf = s0.buf \o WordSeq(c1) \o WordSeq(Or(Shl(v1, a), Shr(v2, r)))
                                                     \o WordSeq(Or(Shl(v2, a), Shr(v3, r))) \o WordSeq(Or(Shl(v3, a), Shr(v4, r))),
                                     !.cur = Shl(v4, a), !.avail = 64, !.pos = s0.pos + 32]
                 IN Loop256(s1, first, start + 32, rem - 256, r, a)
    ELSE <<s, start, rem>>

RECURSIVE Loop64(_, _, _, _, _, _)   \* unaligned: one word at a time  (l.174-181)
Loop64(s, first, start, rem, r, a) ==
    IF s.ok /\ rem >= 64
    THEN LET v == Word64(first, start + 1)
             s1 == Push(s, Or(s.cur, Shr(v, r)))
         IN Loop64([s1 EXCEPT !.avail = 64, !.cur = Shl(v, a)], first, start + 8, rem - 64, r, a)
    ELSE <<s, start, rem>>

RECURSIVE Tail8(_, _, _, _)          \* last bytes  (l.188-196)
Tail8(s, first, start, rem) ==
    IF s.ok /\ rem >= 8 THEN Tail8(WBits(s, ByteW(first, start + 1), 8), first, start + 1, rem - 8)
    ELSE IF s.ok /\ rem > 0 THEN WBits(s, Val(first + 8 * start, rem), rem)      \* bits[start] >> (8-rem): its top rem bits
    ELSE s

WArray(s, first, count) ==
    IF count = 0 THEN s
    ELSE IF s.avail % 8 = 0 THEN
        LET f == FillCur(s, first, 0, count)
            c == CopyFlush(f[1], first, f[2], f[3])
            s2 == c[1]
            r8 == (c[3] \div 64) * 8
            s3 == IF s2.ok /\ r8 > 0 THEN [s2 EXCEPT !.buf = s2.buf \o Ids(first + 8 * c[2], 8 * r8), !.pos = s2.pos + r8] ELSE s2
        IN Tail8(s3, first, c[2] + r8, c[3] - 8 * r8)
    ELSE IF count >= 64 THEN
        LET r == 64 - s.avail
            a == s.avail
            l1 == Loop256(s, first, 0, count, r, a)
            l2 == Loop64(l1[1], first, l1[2], l1[3], r, a)
        IN Tail8([l2[1] EXCEPT !.avail = a], first, l2[2], l2[3])
    ELSE Tail8(s, first, 0, count)

Apply(s, bits) ==
    /\ cur' = s.cur /\ avail' = s.avail /\ pos' = s.pos /\ buf' = s.buf /\ written' = s.written /\ sink' = s.sink
    /\ flushes' = s.flushes /\ latch' = s.latch
    /\ status' = IF s.ok THEN "ok" ELSE "panic"
    /\ n' = IF s.ok THEN n + bits ELSE n
    /\ UNCHANGED closed

WriteBitsOp(k) == /\ status = "ok" /\ ~closed /\ n + k <= MaxBits
                  /\ Apply(WBits(St, Val(n + 1, k), k), k)

\* WriteBit(bit)  (l.64-73)
WriteBitOp == /\ status = "ok" /\ ~closed /\ n + 1 <= MaxBits
              /\ LET b == Val(n + 1, 1) IN
                 IF avail <= 1
                 THEN LET s1 == Push(St, Or(cur, b)) IN Apply([s1 EXCEPT !.cur = ZeroW, !.avail = 64], 1)
                 ELSE Apply([St EXCEPT !.avail = avail - 1, !.cur = Or(cur, Shl(b, avail - 1))], 1)

WriteArrayOp(k) == /\ status = "ok" /\ ~closed /\ n + k <= MaxBits
                   /\ Apply(WArray(St, n + 1, k), k)

\* Close()  (l.232-267): push the last bytes (the very last one may be incomplete), flush; on failure restore
RECURSIVE LastBytes(_, _)
LastBytes(s, shiftByte) ==       \* shiftByte = index (0-based) of the byte of `cur` to emit
    IF s.avail < 64
    THEN LastBytes([s EXCEPT !.buf = s.buf \o [i \in 1..8 |-> s.cur[8 * shiftByte + i]], !.pos = s.pos + 1, !.avail = s.avail + 8], shiftByte + 1)
    ELSE s

CloseOp ==
    /\ status = "ok" /\ ~closed
    /\ LET s1 == LastBytes(St, 0)
           s2 == [s1 EXCEPT !.written = s1.written - (s1.avail - 64), !.avail = 64]
           s3 == Flush(s2)
       IN IF s3.ok
          THEN /\ closed' = TRUE
               /\ cur' = s3.cur /\ avail' = 0 /\ pos' = 0 /\ buf' = <<>> /\ written' = s3.written - 64 /\ sink' = s3.sink
               /\ flushes' = s3.flushes /\ latch' = s3.latch /\ UNCHANGED <<n, status>>
          ELSE \* the error is returned, the fields are restored for a later attempt; as found the padding stays subtracted
               \* from `written`, so Written() is short by the padding after the failed attempt and by twice that after a retry
               \* (what the sink accepted of a partial write stays in the sink)
               /\ flushes' = s3.flushes /\ latch' = s3.latch /\ sink' = s3.sink
               /\ written' = IF CloseImpl = "asis" THEN s2.written ELSE written
               /\ UNCHANGED <<cur, avail, pos, buf, closed, n, status>>

Done == (closed \/ status = "panic" \/ n >= MaxBits) /\ UNCHANGED vars

Next == (\E k \in BitsOps : WriteBitsOp(k)) \/ WriteBitOp \/ (\E k \in ArrOps : WriteArrayOp(k)) \/ CloseOp \/ Done
Spec == Init /\ [][Next]_vars

(***************************************************************************)
(* Refinement of the bit vector (C14)                                      *)
(***************************************************************************)
Used == [i \in 1..(64 - avail) |-> cur[i]]      \* the bits of `current` that are in use
RECURSIVE IsIota(_, _)
IsIota(q, i) == i > Len(q) \/ (q[i] = i /\ IsIota(q, i + 1))
\* the byte image is the big endian concatenation of the written bits, in order, nothing lost, nothing duplicated
Image == (status = "ok" /\ ~closed /\ ~latch) => (LET img == sink \o buf \o Used IN Len(img) = n /\ IsIota(img, 1))
\* ... padded with zeros to a byte boundary once closed
Closed == closed => /\ Len(sink) = 8 * ((n + 7) \div 8)
                    /\ \A i \in 1..Len(sink) : sink[i] = (IF i <= n THEN i ELSE 0)
\* C08/C17: whatever happened (failed flushes, partial writes, retried Close), the sink only ever holds a prefix of the right image:
\* nothing duplicated, nothing out of order
SinkPrefix == \A i \in 1..Len(sink) : sink[i] = (IF i <= n THEN i ELSE 0)
\* Written() equals the sum of the operation sizes at every step
WrittenFn == written + 8 * pos + (64 - avail)
Counter == status = "ok" => WrittenFn = n
\* the unused part of `current` is clean (no stale bits that a later OR would corrupt)
CleanCur == (status = "ok" /\ ~closed) => \A i \in (64 - avail + 1)..64 : cur[i] = 0
\* the buffer never overflows
InBuffer == pos <= BUF /\ Len(buf) = 8 * pos
\* a failing sink is the only cause of a panic
PanicOnlyOnFault == status = "panic" => FailFlush # {}
=============================================================================
