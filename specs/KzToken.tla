------------------------------ MODULE KzToken ------------------------------
(***************************************************************************)
(* The block hand-off protocol of v2/io/CompressedStream.go in isolation,   *)
(* for ANY number of tasks N (the code allows 1..64).                       *)
(*                                                                         *)
(* One int32 (Writer.blockID / Reader.blockID) is the token.  The tasks of  *)
(* a batch have the ids 1..n (relative to the value of the token when the   *)
(* batch was started).  Task t                                              *)
(*    waits until the token equals t-1 (or CANCEL = -1),                    *)
(*    then owns the shared bit stream ("crit"),                             *)
(*    releases with compare-and-swap(t-1 -> t) either right after it has    *)
(*    read its frame (decoder: Publish, then it decodes outside the         *)
(*    critical section, "post") or in its deferred function (encoder),      *)
(*    and stores CANCEL in its deferred function when it failed or met the  *)
(*    end of the stream.                                                    *)
(*                                                                         *)
(* KzReader and KzWriter (the implementation-shaped specs that are bound to *)
(* the code by replay and trace validation) refine this module; TLC checks  *)
(* the refinement for bounded constants (MC_TokenReader / MC_TokenWriter),  *)
(* and the safety part of C07 -- exclusive, ordered, cancellation sticks -- *)
(* is PROVED below for every N with TLAPS (tlapm), which removes the bound  *)
(* "N <= 4" of the model-checked configurations for these three clauses.    *)
(*                                                                         *)
(* `top' is a history variable: the highest token value published in the    *)
(* current batch.  It constrains nothing (every action defines top' from    *)
(* counter'), so hiding it gives the same behaviours of the other variables.*)
(* Impl = "store" is the as-found decoder (F3): Publish by a plain store.   *)
(***************************************************************************)
EXTENDS Integers

CONSTANTS N,      \* maximum number of tasks of a batch (jobs)
          Impl    \* "cas" | "store"

ASSUME NPos == N \in Nat /\ N >= 1

CANCEL == -1
Task == 1..N
PCs == {"idle", "wait", "crit", "post", "fin", "done"}

VARIABLES counter,  \* the token, relative to the start of the batch
          pc,       \* task program counters
          failed,   \* task will store CANCEL in its deferred function
          top,      \* history: highest value published in this batch
          n         \* history: number of tasks of the running batch (0 between batches)

vars == <<counter, pc, failed, top, n>>

Init == /\ counter = 0
        /\ pc = [t \in Task |-> "idle"]
        /\ failed = [t \in Task |-> FALSE]
        /\ top = 0
        /\ n = 0

NewTop(c) == IF c = CANCEL THEN top ELSE c

\* processBlock starts a batch of k tasks (never after a cancellation)
Start(k) ==
    /\ \A t \in Task : pc[t] \in {"idle", "done"}
    /\ counter # CANCEL
    /\ counter' = 0
    /\ pc' = [t \in Task |-> IF t <= k THEN "wait" ELSE "idle"]
    /\ failed' = [t \in Task |-> FALSE]
    /\ top' = 0
    /\ n' = k

\* processBlock after wg.Wait(): the task objects are dropped
Join ==
    /\ \A t \in Task : pc[t] \in {"idle", "done"}
    /\ pc' = [t \in Task |-> "idle"]
    /\ failed' = [t \in Task |-> FALSE]
    /\ n' = 0
    /\ UNCHANGED <<counter, top>>

\* encoder: the local work (transform, entropy coding into the task's own buffer) fails before the task ever waits
LocalFail(t) ==
    /\ pc[t] = "wait"
    /\ pc' = [pc EXCEPT ![t] = "fin"]
    /\ failed' = [failed EXCEPT ![t] = TRUE]
    /\ UNCHANGED <<counter, top, n>>

\* the spin loop is left with the token ...
Enter(t) ==
    /\ pc[t] = "wait"
    /\ counter = t - 1
    /\ pc' = [pc EXCEPT ![t] = "crit"]
    /\ UNCHANGED <<counter, failed, top, n>>

\* ... or because somebody cancelled (the decoder's task then finds "nothing decoded" and cancels again)
SeeCancel(t) ==
    /\ pc[t] = "wait"
    /\ counter = CANCEL
    /\ pc' = [pc EXCEPT ![t] = "fin"]
    /\ \E f \in BOOLEAN : failed' = [failed EXCEPT ![t] = f]
    /\ UNCHANGED <<counter, top, n>>

\* I/O failure, truncated stream or end marker while owning the stream
CritFail(t) ==
    /\ pc[t] = "crit"
    /\ pc' = [pc EXCEPT ![t] = "fin"]
    /\ failed' = [failed EXCEPT ![t] = TRUE]
    /\ UNCHANGED <<counter, top, n>>

\* decoder: hand the token over as soon as the frame has been read
Publish(t) ==
    /\ pc[t] = "crit"
    /\ counter' = IF Impl = "store" \/ counter = t - 1 THEN t ELSE counter
    /\ top' = NewTop(counter')
    /\ pc' = [pc EXCEPT ![t] = "post"]
    /\ UNCHANGED <<failed, n>>

\* encoder: leave the critical section, the token is released by the deferred function
Leave(t) ==
    /\ pc[t] = "crit"
    /\ pc' = [pc EXCEPT ![t] = "fin"]
    /\ UNCHANGED <<counter, failed, top, n>>

\* decoder: entropy decoding / inverse transform / checksum outside the critical section
Post(t) ==
    /\ pc[t] = "post"
    /\ pc' = [pc EXCEPT ![t] = "fin"]
    /\ \E f \in BOOLEAN : failed' = [failed EXCEPT ![t] = f]
    /\ UNCHANGED <<counter, top, n>>

\* the deferred function
Fin(t) ==
    /\ pc[t] = "fin"
    /\ counter' = IF failed[t] THEN CANCEL
                  ELSE IF counter = t - 1 THEN t ELSE counter
    /\ top' = NewTop(counter')
    /\ pc' = [pc EXCEPT ![t] = "done"]
    /\ UNCHANGED <<failed, n>>

Step(t) == LocalFail(t) \/ Enter(t) \/ SeeCancel(t) \/ CritFail(t) \/ Publish(t) \/ Leave(t) \/ Post(t) \/ Fin(t)

Next == (\E k \in Task : Start(k)) \/ Join \/ (\E t \in Task : Step(t))

Spec == Init /\ [][Next]_vars
FairSpec == Spec /\ \A t \in Task : WF_vars(Step(t))

(***************************************************************************)
(* Properties (C07)                                                        *)
(***************************************************************************)
\* exclusive
Mutex == \A s, t \in Task : (pc[s] = "crit" /\ pc[t] = "crit") => s = t
\* ordered: whoever owns the stream, every task with a smaller id has released the token before
Ordered == \A t \in Task : pc[t] = "crit" => \A s \in Task : s < t => pc[s] \in {"post", "fin", "done"}
\* a cancellation is never overwritten (F3 was exactly the violation of this)
CancelSticks == [][counter = CANCEL => counter' = CANCEL]_vars
\* and nobody acquires after it
NoEnterAfterCancel == [][\A t \in Task : (counter = CANCEL /\ pc[t] = "wait") => pc'[t] # "crit"]_vars
\* a failure is visible to the caller after the join
FailureCancels == ((\A t \in Task : pc[t] \in {"idle", "done"}) /\ (\E t \in Task : pc[t] = "done" /\ failed[t]))
                     => counter = CANCEL
\* every task finishes (liveness; model-checked, not proved)
AllFinish == \A t \in Task : (pc[t] = "wait") ~> (pc[t] = "done")

(***************************************************************************)
(* The inductive invariant                                                 *)
(***************************************************************************)
TypeOK == /\ counter \in {CANCEL} \cup (0..N)
          /\ top \in 0..N
          /\ n \in 0..N
          /\ pc \in [Task -> PCs]
          /\ failed \in [Task -> BOOLEAN]

Inv == /\ TypeOK
       /\ counter # CANCEL => counter = top
       /\ \A t \in Task : (pc[t] = "idle") <=> (t > n)
       /\ \A t \in Task : (t <= top /\ t <= n) => pc[t] \in {"post", "fin", "done"}
       /\ \A t \in Task : t > top + 1 => pc[t] \in {"idle", "wait", "fin", "done"}
       /\ \A t \in Task : (pc[t] = "done" /\ failed[t]) => counter = CANCEL

=============================================================================
