SPECIFICATION Spec
INVARIANTS NoViolation
POSTCONDITION Consumed
CHECK_DEADLOCK FALSE
