---------------------------- MODULE Trace_Events ----------------------------
(***************************************************************************)
(* Judge for the listener logs of real Writers / Readers (driver `events`).*)
(*  Case  run, ck, nblocks, B, blens[], hashes[] (independent checksum     *)
(*        reference), payload[] and prelen[] (independent container        *)
(*        parser), jobs, rjobs, sameStream (the stream is byte-identical   *)
(*        to the one written without listener, even if the listener        *)
(*        panics), restored, wok                                           *)
(*  L     run, side, t, id, size, hash, ht      (order of reception)       *)
(*  End   run                                                              *)
(* The order formulas are those of KzEventLog, the module the design spec  *)
(* KzEvents is checked with.                                               *)
(***************************************************************************)
EXTENDS KzEventLog, TLC, Json, IOUtils

Trace == ndJsonDeserialize(IOEnv.TRACE_FILE)

VARIABLES l, st
Init == l = 1 /\ st = [c |-> [nblocks |-> 0], w |-> <<>>, r |-> <<>>]

Block(c) == 1..c.nblocks

ValueBad(c, e) ==
    IF e.t = 8 THEN (IF e.side # "r" \/ e.hdrBlock # c.B \/ e.hdrCk # c.ck THEN "EV_header_info" ELSE "none")
    ELSE IF e.t \notin {2, 3, 4, 5} THEN "none"
    ELSE IF e.ht # c.ck THEN "EV_hash_type"
    ELSE IF e.id \notin Block(c) THEN
        \* as found: size-0 deliveries for the end marker and the cancelled tasks behind it
        (IF e.side = "r" /\ e.t = 3 /\ e.size = 0 /\ e.id > c.nblocks /\ e.id <= c.nblocks + c.rjobs THEN "none" ELSE "EV_unknown_block")
    ELSE IF c.ck # 0 /\ e.hash # c.hashes[e.id] THEN "EV_hash_value"
    ELSE IF e.side = "w" /\ e.t = 2 /\ e.size # c.blens[e.id] THEN "EV_size"
    ELSE IF e.side = "w" /\ e.t \in {3, 4} /\ Len(c.prelen) >= e.id /\ e.size # c.prelen[e.id] THEN "EV_size"
    ELSE IF e.side = "w" /\ e.t = 5 /\ Len(c.payload) >= e.id /\ e.size # c.payload[e.id] THEN "EV_size"
    ELSE IF e.side = "r" /\ e.t = 4 /\ Len(c.payload) >= e.id /\ e.size # c.payload[e.id] THEN "EV_size"
    ELSE IF e.side = "r" /\ e.t \in {5, 2} /\ Len(c.prelen) >= e.id /\ e.size # c.prelen[e.id] THEN "EV_size"
    ELSE IF e.side = "r" /\ e.t = 3 /\ e.size # c.blens[e.id] THEN "EV_size"
    ELSE "none"

EndBad(s) ==
    LET c == s.c IN
    IF ~c.wok THEN "none"   \* the writer itself failed: nothing to say about its events
    ELSE IF ~c.sameStream THEN "EV_listener_changes_stream"
    ELSE IF ~c.restored THEN "EV_listener_breaks_decoding"
    ELSE IF ~PerBlockOrder(s.w, "w", Block(c)) THEN "EV_writer_phase_order"
    ELSE IF ~PerBlockOrder(s.r, "r", Block(c)) THEN "EV_reader_phase_order"
    ELSE IF ~Complete(s.w, "w", Block(c)) THEN "EV_writer_incomplete"
    ELSE IF ~Complete(s.r, "r", Block(c)) THEN "EV_reader_incomplete"
    ELSE IF ~DeliveryOrdered(s.r, 1) THEN "EV_reader_delivery_order"
    ELSE IF ~Barrier(s.w, "w", c.jobs) THEN "EV_writer_batches_overlap"
    ELSE IF ~Barrier(s.r, "r", c.rjobs) THEN "EV_reader_batches_overlap"
    ELSE "none"

Step(e) ==
    CASE e.ev = "Case" -> /\ st' = [c |-> e, w |-> <<>>, r |-> <<>>]
      [] e.ev = "L" ->
            /\ st' = IF e.side = "w" THEN [st EXCEPT !.w = Append(@, [t |-> e.t, id |-> e.id])]
                                     ELSE [st EXCEPT !.r = Append(@, [t |-> e.t, id |-> e.id])]
            /\ ValueBad(st.c, e) # "none" => PrintT(<<"VIOLATION_AT", l, ValueBad(st.c, e)>>)
      [] e.ev = "End" ->
            /\ st' = st
            /\ EndBad(st) # "none" => PrintT(<<"VIOLATION_AT", l, EndBad(st)>>)
      [] OTHER -> st' = st

Next == l <= Len(Trace) /\ l' = l + 1 /\ Step(Trace[l])

Spec == Init /\ [][Next]_<<l, st>>
Consumed == TLCGet("stats").diameter - 1 = Len(Trace)
=============================================================================
