--------------------------- MODULE Trace_Entropy ---------------------------
(***************************************************************************)
(* Judge for C12 over recorded encoder/decoder pairs of the real entropy   *)
(* codecs.  ENT: codec, len, enc ("ok"|"error"|"panic"), dec, encBits      *)
(* (bits the encoder wrote for the block, incl. Dispose), decBits (bits    *)
(* the decoder read for the block), same (decoded = original), sentinel    *)
(* (the 64-bit word written right after the block was read back intact).   *)
(***************************************************************************)
EXTENDS Integers, Sequences, TLC, Json, IOUtils

Trace == ndJsonDeserialize(IOEnv.TRACE_FILE)
VARIABLES l
Init == l = 1

Bad(e) == IF e.enc # "ok" THEN "C12_encoder_fails"
          ELSE IF e.dec # "ok" THEN "C12_decoder_fails"
          ELSE IF ~e.same THEN "C12_decoded_differs"                \* exact inverse pair
          ELSE IF e.encBits # e.decBits THEN "C12_bits_differ"      \* bit-exact consumption
          ELSE IF ~e.sentinel THEN "C12_following_data_misread"     \* data following the block is read correctly
          ELSE "none"

Next == /\ l <= Len(Trace)
        /\ l' = l + 1
        /\ LET e == Trace[l] IN (e.ev = "ENT" /\ Bad(e) # "none") => PrintT(<<"VIOLATION_AT", l, Bad(e)>>)
Spec == Init /\ [][Next]_l
Consumed == TLCGet("stats").diameter - 1 = Len(Trace)
=============================================================================
