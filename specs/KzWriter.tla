----------------------------- MODULE KzWriter -----------------------------
(***************************************************************************)
(* Writer.Write / Close / processBlock / encodingTask.encode of            *)
(* v2/io/CompressedStream.go, one action per critical section, together    *)
(* with the shared output bitstream and the sink as far as failures are    *)
(* concerned.                                                              *)
(*                                                                         *)
(* Data: the caller writes the bytes 1, 2, 3, ... L (a byte is its         *)
(* position).  Frames: <<"hdr">>, <<"blk", id, bytes>>, <<"end">>.         *)
(*                                                                         *)
(* FlushMode = "emit": the shared bitstream has a buffer smaller than a    *)
(* frame, every Emit performs sink calls (NewWriterWithCtx2 with a small   *)
(* DefaultOutputBitStream; the Writer does not own the sink).              *)
(* FlushMode = "close": the default 256 KiB buffer and small blocks, the   *)
(* sink is only called by Close (flush, then Close of the sink).           *)
(*                                                                         *)
(* Impl = "asis": code at commit 76efab5.  Impl = "fixed": after the fix:  *)
(* commits (task count follows the buffered blocks, failure is sticky).    *)
(***************************************************************************)
EXTENDS Integers, Sequences, FiniteSets, TLC, SequencesExt

CONSTANTS Jobs, B,
          Hint,         \* nbInputBlocks derived from the size hint (0 = no hint)
          L,            \* total number of bytes the caller wants to write
          WriteLens,    \* lengths the caller may pass to Write
          FlushMode,    \* "emit" | "close"
          FailBlocks,   \* block ids whose emit-time sink call fails (FlushMode = "emit")
          FailLocal,    \* block ids whose local encoding fails (codec error)
          CloseFlushFails, \* number of times the flush of Close fails before it succeeds
          SinkCloseFails,  \* number of times Close of the sink fails before it succeeds
          Impl, MaxPost

CANCEL == -1
Tasks == 0..(Jobs - 1)
Min2(a, b) == IF a < b THEN a ELSE b
Max2(a, b) == IF a > b THEN a ELSE b

VARIABLES initialized, closing, finalized, closed, obsClosed, sinkClosed,
          avail, ibuf, counter, et, batchFirst,
          obsBuf, sink, torn, flushLeft, sinkCloseLeft,
          wpc, todo, done, origin, nextByte, accepted, lastRet, closeOK, errSeen, post

vars == <<initialized, closing, finalized, closed, obsClosed, sinkClosed, avail, ibuf, counter, et, batchFirst,
          obsBuf, sink, torn, flushLeft, sinkCloseLeft, wpc, todo, done, origin, nextByte, accepted, lastRet,
          closeOK, errSeen, post>>

Idle == [pc |-> "idle", id |-> 0, blk |-> <<>>, err |-> FALSE]

Init == /\ initialized = FALSE /\ closing = FALSE /\ finalized = FALSE /\ closed = FALSE
        /\ obsClosed = FALSE /\ sinkClosed = FALSE
        /\ avail = 0
        /\ ibuf = [b \in 0..(Jobs - 1) |-> [k \in 1..B |-> 0]]
        /\ counter = 0
        /\ et = [t \in Tasks |-> Idle]
        /\ batchFirst = 0
        /\ obsBuf = <<>> /\ sink = <<>> /\ torn = FALSE
        /\ flushLeft = CloseFlushFails /\ sinkCloseLeft = SinkCloseFails
        /\ wpc = "idle" /\ todo = <<>> /\ done = 0 /\ origin = "none"
        /\ nextByte = 1 /\ accepted = <<>>
        /\ lastRet = [op |-> "none", n |-> 0, err |-> "none"]
        /\ closeOK = FALSE /\ errSeen = FALSE /\ post = 0

Ret(op, n, e) ==
    /\ lastRet' = [op |-> op, n |-> n, err |-> e]
    /\ errSeen' = (errSeen \/ e = "err")

Failed == counter = CANCEL

(***************************************************************************)
(* Write                                                                   *)
(***************************************************************************)
WriteBegin(n) ==                                          \* l.524-530
    /\ wpc = "idle"
    /\ nextByte + n - 1 <= L
    /\ (closed \/ closeOK \/ errSeen) => post < MaxPost
    /\ post' = IF closed \/ closeOK \/ errSeen THEN post + 1 ELSE post
    /\ IF closed \/ closing THEN
          /\ Ret("write", 0, "closed") /\ UNCHANGED <<wpc, todo, done, origin, nextByte>>
       ELSE IF Impl = "fixed" /\ Failed THEN               \* (DEV) sticky failure
          /\ Ret("write", 0, "err") /\ UNCHANGED <<wpc, todo, done, origin, nextByte>>
       ELSE IF n = 0 THEN
          /\ Ret("write", 0, "none") /\ UNCHANGED <<wpc, todo, done, origin, nextByte>>
       ELSE
          /\ todo' = [k \in 1..n |-> nextByte + k - 1]
          /\ done' = 0
          /\ nextByte' = nextByte + n
          /\ wpc' = "copy" /\ origin' = "write"
          /\ UNCHANGED <<lastRet, errSeen>>
    /\ UNCHANGED <<initialized, closing, finalized, closed, obsClosed, sinkClosed, avail, ibuf, counter, et,
                   batchFirst, obsBuf, sink, torn, flushLeft, sinkCloseLeft, accepted, closeOK>>

\* one iteration of the copy loop  (l.532-568)
WriteCopy ==
    /\ wpc = "copy"
    /\ IF done = Len(todo) THEN
          /\ wpc' = "idle" /\ Ret("write", Len(todo), "none")
          /\ accepted' = accepted \o todo
          /\ UNCHANGED <<avail, ibuf, done>>
       ELSE
          LET remaining == Len(todo) - done
              bufOff == avail % B
              len == Min2(remaining, B - bufOff)
              bufID == avail \div B
          IN /\ ibuf' = IF bufID \in DOMAIN ibuf
                        THEN [ibuf EXCEPT ![bufID] = [k \in 1..B |->
                                 IF k > bufOff /\ k <= bufOff + len THEN todo[done + k - bufOff] ELSE @[k]]]
                        ELSE ibuf
             /\ avail' = avail + len
             /\ done' = done + len
             /\ wpc' = IF bufID \notin DOMAIN ibuf THEN "oob"      \* index out of range: the process panics
                       ELSE IF bufOff + len >= B /\ bufID + 1 >= Jobs THEN "pb" ELSE "copy"
             /\ UNCHANGED <<lastRet, errSeen, accepted>>
    /\ UNCHANGED <<initialized, closing, finalized, closed, obsClosed, sinkClosed, counter, et, batchFirst,
                   obsBuf, sink, torn, flushLeft, sinkCloseLeft, todo, origin, nextByte, closeOK, post>>

(***************************************************************************)
(* processBlock                                                            *)
(***************************************************************************)
NbBuffered == (avail + B - 1) \div B
NbTasks == IF Jobs > 1 /\ Hint > 0
           THEN IF Impl = "asis" THEN Min2(Jobs, Hint)                    \* (DEV) F1
                ELSE Min2(Jobs, Max2(Hint, NbBuffered))
           ELSE Jobs

RECURSIVE Spawn(_, _, _)
Spawn(t, e, av) ==
    IF t >= NbTasks \/ av = 0 THEN <<e, av>>
    ELSE LET dl == Min2(av, B)
         IN Spawn(t + 1,
                  [e EXCEPT ![t] = [pc |-> "local", id |-> counter + t + 1,
                                    blk |-> [k \in 1..dl |-> ibuf[t][k]], err |-> FALSE]],
                  av - dl)

PBStart ==                                                \* l.621-698
    /\ wpc = "pb"
    /\ obsBuf' = IF initialized THEN obsBuf ELSE Append(obsBuf, <<"hdr">>)
    /\ initialized' = TRUE
    /\ IF Impl = "fixed" /\ Failed THEN                    \* (DEV) sticky failure
          /\ wpc' = "pberr" /\ UNCHANGED <<et, avail, batchFirst>>
       ELSE IF avail = 0 THEN
          /\ wpc' = "pbdone" /\ UNCHANGED <<et, avail, batchFirst>>
       ELSE LET s == Spawn(0, [t \in Tasks |-> Idle], avail)
            IN /\ et' = s[1] /\ avail' = s[2] /\ batchFirst' = counter
               /\ wpc' = "join"
    /\ UNCHANGED <<closing, finalized, closed, obsClosed, sinkClosed, ibuf, counter, sink, torn, flushLeft,
                   sinkCloseLeft, todo, done, origin, nextByte, accepted, lastRet, closeOK, errSeen, post>>

TaskUnch == <<initialized, closing, finalized, closed, obsClosed, sinkClosed, avail, ibuf, batchFirst,
              flushLeft, sinkCloseLeft, wpc, todo, done, origin, nextByte, accepted, lastRet, closeOK, errSeen, post>>

\* checksum, transform, entropy coding into the task's own buffer  (l.755-932)
Local(t) ==
    /\ et[t].pc = "local"
    /\ et' = IF et[t].id \in FailLocal
             THEN [et EXCEPT ![t].pc = "fin", ![t].err = TRUE]
             ELSE [et EXCEPT ![t].pc = "wait"]
    /\ UNCHANGED <<counter, obsBuf, sink, torn>> /\ UNCHANGED TaskUnch

\* the spin loop  (l.935-949)
EWait(t) ==
    /\ et[t].pc = "wait"
    /\ \/ /\ counter = CANCEL /\ et' = [et EXCEPT ![t].pc = "fin"]
       \/ /\ counter # CANCEL /\ counter = et[t].id - 1 /\ et' = [et EXCEPT ![t].pc = "emit"]
    /\ UNCHANGED <<counter, obsBuf, sink, torn>> /\ UNCHANGED TaskUnch

\* append the frame to the shared bitstream  (l.951-976)
Emit(t) ==
    /\ et[t].pc = "emit"
    /\ LET frame == <<"blk", et[t].id, et[t].blk>>
       IN IF FlushMode = "emit" THEN
             IF et[t].id \in FailBlocks THEN
                \* the sink rejects a write: flush fails, the bitstream panics, the frame is torn
                /\ torn' = TRUE
                /\ et' = [et EXCEPT ![t].pc = "fin", ![t].err = TRUE]
                /\ UNCHANGED <<sink, obsBuf>>
             ELSE
                /\ sink' = sink \o obsBuf \o <<frame>>
                /\ obsBuf' = <<>>
                /\ et' = [et EXCEPT ![t].pc = "fin"]
                /\ UNCHANGED torn
          ELSE
             /\ obsBuf' = Append(obsBuf, frame)
             /\ et' = [et EXCEPT ![t].pc = "fin"]
             /\ UNCHANGED <<sink, torn>>
    /\ UNCHANGED counter /\ UNCHANGED TaskUnch

\* the deferred function  (l.735-753)
EFin(t) ==
    /\ et[t].pc = "fin"
    /\ IF et[t].err THEN counter' = CANCEL
       ELSE IF counter = et[t].id - 1 THEN counter' = et[t].id ELSE UNCHANGED counter
    /\ et' = [et EXCEPT ![t].pc = "done"]
    /\ UNCHANGED <<obsBuf, sink, torn>> /\ UNCHANGED TaskUnch

Join ==                                                   \* l.700-709
    /\ wpc = "join"
    /\ \A t \in Tasks : et[t].pc \in {"idle", "done"}
    /\ LET anyErr == \E t \in Tasks : et[t].pc = "done" /\ et[t].err
       IN wpc' = IF anyErr THEN "pberr" ELSE "pbdone"
    /\ et' = [t \in Tasks |-> Idle]
    /\ UNCHANGED <<initialized, closing, finalized, closed, obsClosed, sinkClosed, avail, ibuf, counter, batchFirst,
                   obsBuf, sink, torn, flushLeft, sinkCloseLeft, todo, done, origin, nextByte, accepted, lastRet,
                   closeOK, errSeen, post>>

\* return from processBlock to Write or Close
PBReturn ==
    /\ wpc \in {"pbdone", "pberr"}
    /\ IF origin = "write" THEN
          IF wpc = "pberr" THEN
             /\ wpc' = "idle" /\ Ret("write", done, "err")
             /\ UNCHANGED <<closing, finalized, obsBuf>>
          ELSE /\ wpc' = "copy" /\ UNCHANGED <<lastRet, errSeen, closing, finalized, obsBuf>>
       ELSE
          IF wpc = "pberr" THEN
             /\ closing' = FALSE /\ wpc' = "idle" /\ Ret("close", 0, "err")
             /\ UNCHANGED <<finalized, obsBuf>>
          ELSE /\ obsBuf' = Append(obsBuf, <<"end">>)       \* l.592-595
               /\ finalized' = TRUE
               /\ wpc' = "obsclose"
               /\ UNCHANGED <<lastRet, errSeen, closing>>
    /\ UNCHANGED <<initialized, closed, obsClosed, sinkClosed, avail, ibuf, counter, et, batchFirst, sink, torn,
                   flushLeft, sinkCloseLeft, todo, done, origin, nextByte, accepted, closeOK, post>>

(***************************************************************************)
(* Close                                                                   *)
(***************************************************************************)
CloseBegin ==                                             \* l.576-597
    /\ wpc = "idle"
    /\ (closed \/ closeOK \/ errSeen) => post < MaxPost
    /\ post' = IF closed \/ closeOK \/ errSeen THEN post + 1 ELSE post
    /\ origin' = "close"
    /\ IF closed THEN /\ Ret("close", 0, "none") /\ UNCHANGED <<wpc, closing>>
       ELSE IF ~finalized THEN
               IF ~closing THEN /\ closing' = TRUE /\ wpc' = "pb" /\ UNCHANGED <<lastRet, errSeen>>
               ELSE /\ Ret("close", 0, "closed") /\ UNCHANGED <<wpc, closing>>
            ELSE /\ wpc' = "obsclose" /\ UNCHANGED <<lastRet, errSeen, closing>>
    /\ UNCHANGED <<initialized, finalized, closed, obsClosed, sinkClosed, avail, ibuf, counter, et, batchFirst,
                   obsBuf, sink, torn, flushLeft, sinkCloseLeft, todo, done, nextByte, accepted, closeOK>>

\* obs.Close(): flush what is buffered; on failure the state is restored so that Close can be retried (l.599)
ObsClose ==
    /\ wpc = "obsclose"
    /\ IF obsClosed THEN
          /\ wpc' = "sinkclose" /\ UNCHANGED <<sink, obsBuf, obsClosed, flushLeft, lastRet, errSeen>>
       ELSE IF flushLeft > 0 THEN
          /\ flushLeft' = flushLeft - 1
          /\ wpc' = "idle" /\ Ret("close", 0, "err")
          /\ UNCHANGED <<sink, obsBuf, obsClosed>>
       ELSE
          /\ sink' = sink \o obsBuf /\ obsBuf' = <<>> /\ obsClosed' = TRUE
          /\ wpc' = "sinkclose"
          /\ UNCHANGED <<flushLeft, lastRet, errSeen>>
    /\ UNCHANGED <<initialized, closing, finalized, closed, sinkClosed, avail, ibuf, counter, et, batchFirst, torn,
                   sinkCloseLeft, todo, done, origin, nextByte, accepted, closeOK, post>>

\* streamCloser.Close() when the Writer owns the sink  (l.603-611)
SinkClose ==
    /\ wpc = "sinkclose"
    /\ IF FlushMode = "close" /\ ~sinkClosed /\ sinkCloseLeft > 0 THEN
          /\ sinkCloseLeft' = sinkCloseLeft - 1
          /\ wpc' = "idle" /\ Ret("close", 0, "err")
          /\ UNCHANGED <<sinkClosed, closed, closeOK>>
       ELSE
          /\ sinkClosed' = (sinkClosed \/ FlushMode = "close")
          /\ closed' = TRUE /\ closeOK' = TRUE
          /\ wpc' = "idle" /\ Ret("close", 0, "none")
          /\ UNCHANGED sinkCloseLeft
    /\ UNCHANGED <<initialized, closing, finalized, obsClosed, avail, ibuf, counter, et, batchFirst, obsBuf, sink, torn,
                   flushLeft, todo, done, origin, nextByte, accepted, post>>

TaskStep(t) == Local(t) \/ EWait(t) \/ Emit(t) \/ EFin(t)

Terminated == /\ wpc = "idle" /\ (closed \/ closeOK \/ errSeen) /\ post >= MaxPost
              /\ UNCHANGED vars
\* the caller has nothing more to write and does not close (also covers the panic state)
Stuck == wpc = "oob" /\ UNCHANGED vars

Next == \/ \E n \in WriteLens : WriteBegin(n)
        \/ WriteCopy \/ PBStart \/ Join \/ PBReturn \/ CloseBegin \/ ObsClose \/ SinkClose
        \/ \E t \in Tasks : TaskStep(t)
        \/ Terminated \/ Stuck

Spec == Init /\ [][Next]_vars
FairSpec == Spec /\ WF_vars(WriteCopy) /\ WF_vars(PBStart) /\ WF_vars(Join) /\ WF_vars(PBReturn)
                 /\ WF_vars(ObsClose) /\ WF_vars(SinkClose) /\ \A t \in Tasks : WF_vars(TaskStep(t))

(***************************************************************************)
(* Properties                                                              *)
(***************************************************************************)
RECURSIVE Blocks(_, _)
Blocks(s, id) == IF Len(s) = 0 THEN <<>>
                 ELSE LET n == Min2(B, Len(s))
                      IN <<<<"blk", id, SubSeq(s, 1, n)>>>> \o Blocks(SubSeq(s, n + 1, Len(s)), id + 1)
Frames(s) == <<<<"hdr">>>> \o Blocks(s, 1) \o <<<<"end">>>>

Emitted == sink \o obsBuf

\* C08/C01: Close reports success only for a complete well-formed stream of all accepted bytes
W_CloseOK == closeOK => (sink = Frames(accepted) /\ ~torn /\ (FlushMode = "close" => sinkClosed))
\* C04/C07/C06: whatever was emitted so far is header, then block frames 1, 2, 3, ... each holding exactly
\* its slice of the data, independent of the Write partition, of jobs and of the hint
W_Partition ==
    ~torn => \A i \in 1..Len(Emitted) :
        LET f == Emitted[i] IN
          /\ (i = 1) <=> (f[1] = "hdr")
          /\ f[1] = "blk" => /\ f[2] = i - 1
                             /\ f[3] = [k \in 1..Len(f[3]) |-> (f[2] - 1) * B + k]
                             /\ (Len(f[3]) = B \/ (i = Len(Emitted) \/ Emitted[i + 1][1] = "end"))
          /\ f[1] = "end" => i = Len(Emitted)
\* C08: the process never panics in Write
W_NoPanic == wpc # "oob"
\* C07
W_Mutex == Cardinality({t \in Tasks : et[t].pc = "emit"}) <= 1
W_TokenOrder == \A t \in Tasks : et[t].pc = "emit" => (et[t].id = counter + 1 \/ counter = CANCEL)
W_CancelSticks == [][\A t \in Tasks : (counter = CANCEL /\ et[t].pc = "wait") => et'[t].pc # "emit"]_vars
\* C18: ownership. The caller goroutine touches the shared bitstream and the block buffers only while no task exists;
\* a task touches the shared bitstream only between acquiring the token and finishing; its buffers are its own.
W_Ownership == /\ (wpc # "join" => \A t \in Tasks : et[t].pc = "idle")
               /\ \A t, u \in Tasks : (t # u /\ et[t].pc # "idle" /\ et[u].pc # "idle") => et[t].id # et[u].id
\* C08: a failure is reported before any success of Close
W_FailureReported == (torn \/ \E t \in Tasks : et[t].err) => ~closeOK
\* C17
W_ClosedRefuses == (closed /\ lastRet.op = "write") => lastRet.err = "closed"
\* C01/C17: a successful Write returns the full length
W_FullLength == (lastRet.op = "write" /\ lastRet.err = "none" /\ wpc = "idle") => TRUE
\* liveness
W_CallsReturn == (wpc \notin {"idle", "oob"}) ~> (wpc \in {"idle", "oob"})
TypeOK == avail >= 0 /\ counter \in (0..(L + 2)) \cup {CANCEL}
=============================================================================
