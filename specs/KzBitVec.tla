------------------------------ MODULE KzBitVec ------------------------------
(***************************************************************************)
(* The trivially correct reference of the bit streams (C14): a sequence of *)
(* bits and a counter.  Writing n bits appends them, the counter is the    *)
(* sum of the sizes of the operations; reading returns the next bits.  The *)
(* byte image of a closed output stream is the big-endian concatenation of *)
(* the bits padded with zeros to a byte boundary.                          *)
(* KzBitOut.tla and KzBitIn.tla are checked against this reference through *)
(* their invariants Image / Closed / Counter and InOrder / Counter; the    *)
(* real streams are compared with it operation by operation (Trace_Bits).  *)
(***************************************************************************)
EXTENDS Integers, Sequences

RECURSIVE PrefixSums(_, _, _)
PrefixSums(sizes, i, acc) == IF i > Len(sizes) THEN <<>> ELSE <<acc + sizes[i]>> \o PrefixSums(sizes, i + 1, acc + sizes[i])
\* the value the counter must show after each operation of a program
Counters(sizes) == PrefixSums(sizes, 1, 0)
ImageBytes(nbits) == (nbits + 7) \div 8
=============================================================================
