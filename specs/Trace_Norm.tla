---------------------------- MODULE Trace_Norm ----------------------------
(***************************************************************************)
(* Judge for recorded calls of the real entropy.NormalizeFrequencies (C16).*)
(* Event NORM: in (compact histogram: counts of the present symbols in     *)
(* increasing symbol order), total, scale, out (frequencies of the same    *)
(* symbols after the call), alphaOK (the returned alphabet is exactly the  *)
(* present symbols in increasing order, the returned size is their number  *)
(* and absent symbols have frequency zero), err, panic, big (TRUE when     *)
(* count*scale exceeds TLC's 32-bit integers: then only the post-condition *)
(* is evaluated, not the transcription).                                   *)
(***************************************************************************)
EXTENDS Integers, Sequences, TLC, Json, IOUtils

N == INSTANCE KzNormFreq WITH Impl <- "fixed", MaxRare <- 0, MaxDom <- 0, Bigs <- {}, LRs <- {}, MaxLen <- 0, Menu <- {},
                              Fam <- "A", hist <- <<>>, lr <- 0, res <- <<>>

Trace == ndJsonDeserialize(IOEnv.TRACE_FILE)

VARIABLES l, nbad, ndrift
vars == <<l, nbad, ndrift>>

Init == l = 1 /\ nbad = 0 /\ ndrift = 0

\* C16 on the values returned by the real function
Holds(e) == /\ ~e.panic /\ e.err = ""
            /\ e.alphaOK
            /\ N!ValidTable(e.in, e.scale, e.out)

\* agreement with the transcription (a different but valid table is not a violation: reported as drift)
Agrees(e) == e.big \/ e.out = N!Normalize("fixed", e.in, e.total, e.scale)

Next ==
    /\ l <= Len(Trace)
    /\ l' = l + 1
    /\ LET e == Trace[l] IN
         IF e.ev # "NORM" THEN UNCHANGED <<nbad, ndrift>>
         ELSE /\ nbad' = IF Holds(e) THEN nbad ELSE nbad + 1
              /\ ndrift' = IF Holds(e) /\ ~Agrees(e) THEN ndrift + 1 ELSE ndrift
              /\ ~Holds(e) => PrintT(<<"VIOLATION_AT", l, "C16_invalid_table">>)
              /\ (Holds(e) /\ ~Agrees(e)) => PrintT(<<"DRIFT_AT", l>>)

Spec == Init /\ [][Next]_vars
Consumed == TLCGet("stats").diameter - 1 = Len(Trace)
=============================================================================
