-------------------------- MODULE Trace_Transform --------------------------
(***************************************************************************)
(* Judge for C13 over recorded executions of the real transforms.          *)
(*  STAGE  t, chain (TRUE when built as a sequence by the factory), size,  *)
(*         fwd ("ok" | "declined" | "empty" | "panic" | "construct: ..."), *)
(*         outLen, maxLen (MaxEncodedLen advertised for this input),       *)
(*         srcIntact (the input buffer is unchanged after Forward),        *)
(*         inv ("ok" | "none" | "panic" | "error: ..."), invLen, restored  *)
(***************************************************************************)
EXTENDS Integers, Sequences, TLC, Json, IOUtils

Trace == ndJsonDeserialize(IOEnv.TRACE_FILE)

VARIABLES l
Init == l = 1

Bad(e) ==
    \* neither direction ever faults
    IF e.fwd \notin {"ok", "declined", "empty"} THEN "C13_forward_fault"
    \* a sequence never reports an error: stages that do not apply are skipped
    ELSE IF e.chain /\ e.fwd = "declined" THEN "C13_sequence_error"
    \* clean decline: the block is left unmodified
    ELSE IF e.fwd = "declined" /\ ~e.srcIntact THEN "C13_dirty_decline"
    \* success: the output fits in the advertised size ...
    ELSE IF e.fwd = "ok" /\ e.outLen > e.maxLen THEN "C13_output_exceeds_MaxEncodedLen"
    \* ... and the inverse restores the block exactly into the decompressor's buffer
    ELSE IF e.fwd = "ok" /\ e.inv # "ok" THEN "C13_inverse_fails"
    ELSE IF e.fwd = "ok" /\ ~e.restored THEN "C13_inverse_differs"
    ELSE "none"

Next == /\ l <= Len(Trace)
        /\ l' = l + 1
        /\ LET e == Trace[l] IN (e.ev = "STAGE" /\ Bad(e) # "none") => PrintT(<<"VIOLATION_AT", l, Bad(e)>>)

Spec == Init /\ [][Next]_l
Consumed == TLCGet("stats").diameter - 1 = Len(Trace)
=============================================================================
