--------------------------- MODULE Trace_Reader ---------------------------
(***************************************************************************)
(* Trace specification for executions of the real Reader (record mode).    *)
(* Every constraint below is a consequence of a listed property (C02, C05, *)
(* C06, C07, C08, C09, C11, C17), never of an implementation detail.  The  *)
(* spec is total: every event is consumed; each run (Reset .. next Reset)  *)
(* is judged on its own and the first predicate that is false on the      *)
(* recorded values is printed as <<"VIOLATION_AT", line, predicate>>.      *)
(*                                                                         *)
(* Events (ndjson, one per line):                                          *)
(*  Reset   run, mode ("clean"|"damaged"|"truncated"|"nock"|"srcfault"),   *)
(*          total (number of bytes a correct reader delivers), from, to    *)
(*  Read    n, len (buffer length), got (digest of the bytes returned),    *)
(*          want (digest of the expected bytes at the same offset,         *)
(*          "overflow" if beyond), err ("none"|"eof"|"err"|"closed")       *)
(*  Close   err          GetRead v                                         *)
(*  SRC_FAIL complete    (the underlying source returned an error; complete *)
(*          = every byte of the stream had been handed over by then: such  *)
(*          a failure is immaterial and not required to be reported)       *)
(*  Hang    op  (the call did not return within the watchdog delay)        *)
(*  R_SPAWN first, n     R_JOIN                                            *)
(*  D_SEEN  id, tok (value observed by the spin loop: id-1 or -1)          *)
(*  D_REL   id      (end of the shared section)                            *)
(*  D_DEC   id      (block decoded: inverse transform done)                *)
(*  D_FIN0  id, err (0 = none), dec      D_FIN1  id, counter               *)
(***************************************************************************)
EXTENDS Integers, Sequences, FiniteSets, TLC, Json, IOUtils

Trace == ndJsonDeserialize(IOEnv.TRACE_FILE)

VARIABLES l,   \* next line
          s,   \* the abstract state of the current run (a record)
          dels \* <<key, bytes delivered>> of the runs that carry a key (same stream, same job count, different Read lengths)

vars == <<l, s, dels>>

Fresh == [mode |-> "clean", total |-> 0, from |-> 0, to |-> 0,
          delivered |-> 0,     \* bytes returned so far
          errRep |-> FALSE,    \* an error was returned to the caller
          eofRep |-> FALSE,    \* a clean EOF was returned
          closedRep |-> FALSE, \* Close was called
          holder |-> 0,        \* task inside the shared section (0 = none)
          lastTok |-> 0,       \* id of the last task that acquired the stream
          open |-> {},         \* tasks of the current batch that have not finished
          callErr |-> FALSE,   \* some task failed since the last API return
          srcFailed |-> FALSE, \* the source reported a failure that no API call has reported yet
          lastGetRead |-> 0,
          bad |-> "none"]      \* first violated predicate of the run

Init == l = 1 /\ s = Fresh /\ dels = <<>>

KnownKey(k) == \E i \in 1..Len(dels) : dels[i][1] = k
DelOf(k) == LET i == CHOOSE i \in 1..Len(dels) : dels[i][1] = k IN dels[i][2]

\* first violated predicate wins
Check(st, cond, name) == IF st.bad = "none" /\ ~cond THEN [st EXCEPT !.bad = name] ELSE st

RECURSIVE CheckAll(_, _)
CheckAll(st, cs) == IF cs = <<>> THEN st ELSE CheckAll(Check(st, cs[1][1], cs[1][2]), Tail(cs))

InRange(i) == (s.from = 0 \/ i >= s.from) /\ (s.to = 0 \/ i < s.to)

Reset(e) ==
    \* C07: no task of the previous run is still alive
    Check([Fresh EXCEPT !.mode = e.mode, !.total = e.total, !.from = e.from, !.to = e.to],
          s.open = {}, "C07_task_outlives_run")

Read(e) ==
    LET d2 == s.delivered + e.n
        st == [s EXCEPT !.delivered = d2, !.errRep = (s.errRep \/ e.err = "err"), !.eofRep = (s.eofRep \/ e.err = "eof"),
                        !.callErr = FALSE, !.srcFailed = (s.srcFailed /\ e.err # "err")]
    IN CheckAll(st, <<
        \* C05/C02/C11/C01: the bytes returned are the next expected bytes
        <<~(e.n > 0 /\ s.mode # "nock" /\ e.got # e.want), "R_Prefix">>,
        \* C17: never more than asked
        <<e.n >= 0 /\ e.n <= e.len, "C17_count">>,
        \* C02/C05/C09: nothing after an error
        \* (after a failure of the source itself a retry may succeed - the header is re-read on purpose - but the
        \*  error must not turn into a clean end of stream)
        <<~(s.errRep /\ ~s.closedRep /\ s.mode # "srcfault" /\ (e.n > 0 \/ e.err = "eof")), "R_NothingAfterError">>,
        \* C17: a closed reader refuses
        <<~(s.closedRep /\ (e.n > 0 \/ e.err = "eof" \/ e.err = "none")), "C17_read_after_close">>,
        \* C09/C08: clean EOF only when everything expected was delivered and the stream is not truncated
        <<~(e.err = "eof" /\ s.mode # "nock" /\ (d2 # s.total \/ s.mode = "truncated")), "R_EOFOnlyAtEnd">>,
        \* C01/C05: a clean stream never fails and never over-delivers
        <<~(s.mode = "clean" /\ ~s.closedRep /\ (e.err = "err" \/ d2 > s.total)), "R_CleanStreamFails">>,
        \* C07: a failed task is reported by the enclosing call
        <<~(s.callErr /\ e.err # "err"), "C07_failure_not_reported">>,
        \* C08: a source failure is reported before the end of the stream is: it never becomes a clean EOF
        <<~(s.srcFailed /\ e.err = "eof"), "C08_source_error_as_eof">> >>)

CloseEv(e) == Check([s EXCEPT !.closedRep = TRUE], e.err = "none" \/ s.mode = "srcfault", "C17_close_fails")

GetReadEv(e) == Check([s EXCEPT !.lastGetRead = e.v], e.v >= s.lastGetRead \/ s.closedRep, "C17_counter_not_monotone")

SrcFail(e) == [s EXCEPT !.srcFailed = (s.srcFailed \/ ~e.complete)]

Spawn(e) == Check([s EXCEPT !.open = (e.first + 1)..(e.first + e.n)], s.open = {} /\ s.holder = 0, "C07_batch_overlap")

\* C07: every task of the batch has finished when the batch is joined
JoinEv(e) == Check(s, s.open = {} /\ s.holder = 0, "C07_join_before_tasks_end")

Seen(e) ==
    IF e.tok = -1 THEN s
    ELSE CheckAll([s EXCEPT !.holder = e.id, !.lastTok = e.id], <<
            <<s.holder = 0, "C07_mutex">>,                 \* exclusive
            <<e.id = s.lastTok + 1, "C07_order">>,         \* increasing block order
            <<e.tok = e.id - 1, "C07_token">> >>)
    \* ("nobody acquires after a published failure" cannot be decided from a free-running log: the D_SEEN hook
    \*  runs some time after the load that left the spin loop; it is decided in replay mode, where the gates
    \*  make the order total)

Rel(e) == [s EXCEPT !.holder = IF s.holder = e.id THEN 0 ELSE s.holder]

\* C11: blocks outside the range are never decoded
Dec(e) == Check(s, InRange(e.id), "C11_decoded_outside_range")

Fin0(e) == [s EXCEPT !.holder = IF s.holder = e.id THEN 0 ELSE s.holder, !.callErr = (s.callErr \/ e.err # 0)]

Fin1(e) == Check([s EXCEPT !.open = s.open \ {e.id}], e.id \in s.open, "C07_unknown_task")

Next ==
    /\ l <= Len(Trace)
    /\ l' = l + 1
    /\ LET e == Trace[l] IN
         s' = CASE e.ev = "Reset"    -> Reset(e)
                [] e.ev = "Read"     -> Read(e)
                [] e.ev = "Close"    -> CloseEv(e)
                [] e.ev = "GetRead"  -> GetReadEv(e)
                [] e.ev = "SRC_FAIL" -> SrcFail(e)
                [] e.ev = "R_SPAWN"  -> Spawn(e)
                [] e.ev = "R_JOIN"   -> JoinEv(e)
                [] e.ev = "D_SEEN"   -> Seen(e)
                [] e.ev = "D_REL"    -> Rel(e)
                [] e.ev = "D_DEC"    -> Dec(e)
                [] e.ev = "D_FIN0"   -> Fin0(e)
                [] e.ev = "D_FIN1"   -> Fin1(e)
                [] e.ev = "Hang"     -> Check(s, FALSE, "C07_call_never_returns")
                \* C06: how much of a damaged / truncated stream the caller receives does not depend on the Read lengths
                [] e.ev = "Delivered" -> IF KnownKey(e.key) THEN Check(s, DelOf(e.key) = e.n, "C06_delivered_bytes_depend_on_read_lengths") ELSE s
                [] OTHER             -> s
    /\ dels' = LET e == Trace[l] IN IF e.ev = "Delivered" /\ ~KnownKey(e.key) THEN Append(dels, <<e.key, e.n>>) ELSE dels
    \* report the first violated predicate of each run (the orchestrator reads these lines)
    /\ (s'.bad # "none" /\ s'.bad # s.bad) => PrintT(<<"VIOLATION_AT", l, s'.bad>>)

Spec == Init /\ [][Next]_vars

\* (for single-trace use: fails at the first violating event)
NoViolation == s.bad = "none"
\* every line was consumed (one state per line plus the initial state)
Consumed == TLCGet("stats").diameter - 1 = Len(Trace)
=============================================================================
