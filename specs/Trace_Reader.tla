--------------------------- MODULE Trace_Reader ---------------------------
(***************************************************************************)
(* Trace specification for executions of the real Reader (record mode).    *)
(* Every constraint below is a consequence of a listed property (C02, C05, *)
(* C06, C07, C09, C11, C17), never of an implementation detail.  The spec  *)
(* is total: every event is consumed; the first predicate that is false on *)
(* the recorded values is stored in `bad` and reported by the invariant.   *)
(*                                                                         *)
(* Events (ndjson, one per line):                                          *)
(*  Reset   run, mode ("clean"|"damaged"|"truncated"|"nock"), total,       *)
(*          from, to (block range, 0 = none), ck                           *)
(*  Read    n, got (digest of the bytes returned), want (digest of the     *)
(*          expected bytes at the same offset, "overflow" if beyond),      *)
(*          err ("none"|"eof"|"err"|"closed"), len (buffer length)         *)
(*  Close   err                                                            *)
(*  R_SPAWN first, n          R_JOIN                                       *)
(*  D_SEEN  id, tok (value observed: id-1 or -1)                           *)
(*  D_REL   id      (end of the shared section: D_READ1 or failure path)   *)
(*  D_DEC   id      (block decoded: inverse transform done)                *)
(*  D_FIN0  id, err (0 = none), dec                                        *)
(*  D_FIN1  id, counter                                                    *)
(***************************************************************************)
EXTENDS Integers, Sequences, FiniteSets, TLC, Json, IOUtils

Trace == ndJsonDeserialize(IOEnv.TRACE_FILE)

VARIABLES l,          \* next line
          mode, total, from, to,
          delivered,  \* bytes returned so far in this run
          errRep,     \* an error was returned to the caller
          eofRep,     \* a clean EOF was returned
          closedRep,  \* Close was called
          holder,     \* task currently inside the shared section (0 = none)
          lastTok,    \* id of the last task that acquired the stream
          cancelled,  \* a task published a failure / end of stream
          open,       \* tasks of the current batch that have not finished
          callErr,    \* some task failed since the last API return
          bad         \* name of the first violated predicate, "none" otherwise

vars == <<l, mode, total, from, to, delivered, errRep, eofRep, closedRep, holder, lastTok, cancelled, open, callErr, bad>>

Init == /\ l = 1 /\ mode = "clean" /\ total = 0 /\ from = 0 /\ to = 0
        /\ delivered = 0 /\ errRep = FALSE /\ eofRep = FALSE /\ closedRep = FALSE
        /\ holder = 0 /\ lastTok = 0 /\ cancelled = FALSE /\ open = {} /\ callErr = FALSE
        /\ bad = "none"

Flag(cond, name) == IF bad = "none" /\ ~cond THEN name ELSE bad

InRange(i) == (from = 0 \/ i >= from) /\ (to = 0 \/ i < to)

Reset(e) ==
    /\ mode' = e.mode /\ total' = e.total /\ from' = e.from /\ to' = e.to
    /\ delivered' = 0 /\ errRep' = FALSE /\ eofRep' = FALSE /\ closedRep' = FALSE
    /\ holder' = 0 /\ lastTok' = 0 /\ cancelled' = FALSE /\ callErr' = FALSE
    \* C07: no task of the previous run is still alive
    /\ bad' = Flag(open = {}, "C07_task_outlives_run")
    /\ open' = {}

Read(e) ==
    /\ delivered' = delivered + e.n
    /\ errRep' = (errRep \/ e.err = "err")
    /\ eofRep' = (eofRep \/ e.err = "eof")
    /\ callErr' = FALSE
    /\ bad' =
         \* C05/C02/C11/C01: the bytes returned are the next expected bytes
         IF bad = "none" /\ e.n > 0 /\ mode # "nock" /\ e.got # e.want THEN "R_Prefix"
         \* C17: never more than asked
         ELSE IF bad = "none" /\ (e.n > e.len \/ e.n < 0) THEN "C17_count"
         \* C02/C05/C09: nothing after an error
         ELSE IF bad = "none" /\ errRep /\ ~closedRep /\ (e.n > 0 \/ e.err = "eof") THEN "R_NothingAfterError"
         \* C17: a closed reader refuses
         ELSE IF bad = "none" /\ closedRep /\ (e.n > 0 \/ e.err = "eof" \/ (e.err = "none" /\ e.len > 0)) THEN "C17_read_after_close"
         \* C09/C08: clean EOF only when everything expected was delivered and the stream is not truncated
         ELSE IF bad = "none" /\ e.err = "eof" /\ mode # "nock" /\ (delivered' # total \/ mode = "truncated") THEN "R_EOFOnlyAtEnd"
         \* C01/C05: a clean stream never fails and never over-delivers
         ELSE IF bad = "none" /\ mode = "clean" /\ ~closedRep /\ (e.err = "err" \/ delivered' > total) THEN "R_CleanStreamFails"
         \* C07: a failed task is reported by the enclosing call
         ELSE IF bad = "none" /\ callErr /\ e.err # "err" THEN "C07_failure_not_reported"
         ELSE bad
    /\ UNCHANGED <<mode, total, from, to, closedRep, holder, lastTok, cancelled, open>>

CloseEv(e) ==
    /\ closedRep' = TRUE
    /\ bad' = Flag(e.err = "none", "C17_close_fails")
    /\ UNCHANGED <<mode, total, from, to, delivered, errRep, eofRep, holder, lastTok, cancelled, open, callErr>>

Spawn(e) ==
    /\ open' = {i \in (e.first + 1)..(e.first + e.n) : TRUE}
    /\ bad' = Flag(open = {} /\ holder = 0, "C07_batch_overlap")
    /\ UNCHANGED <<mode, total, from, to, delivered, errRep, eofRep, closedRep, holder, lastTok, cancelled, callErr>>

JoinEv(e) ==
    \* C07: every task of the batch has finished when the batch is joined
    /\ bad' = Flag(open = {} /\ holder = 0, "C07_join_before_tasks_end")
    /\ UNCHANGED <<mode, total, from, to, delivered, errRep, eofRep, closedRep, holder, lastTok, cancelled, open, callErr>>

Seen(e) ==
    IF e.tok = -1 THEN
        /\ UNCHANGED <<mode, total, from, to, delivered, errRep, eofRep, closedRep, holder, lastTok, cancelled, open, callErr, bad>>
    ELSE
        /\ holder' = e.id /\ lastTok' = e.id
        /\ bad' = IF bad = "none" /\ holder # 0 THEN "C07_mutex"                     \* exclusive
                  ELSE IF bad = "none" /\ e.id # lastTok + 1 THEN "C07_order"         \* increasing block order
                  \* ("nobody acquires after a published failure" cannot be decided from a free-running log:
                  \*  the D_SEEN hook runs some time after the load that left the spin loop; it is decided in
                  \*  replay mode, where the gates make the order total)
                  ELSE IF bad = "none" /\ e.tok # e.id - 1 THEN "C07_token"
                  ELSE bad
        /\ UNCHANGED <<mode, total, from, to, delivered, errRep, eofRep, closedRep, cancelled, open, callErr>>

Rel(e) ==
    /\ holder' = IF holder = e.id THEN 0 ELSE holder
    /\ UNCHANGED <<mode, total, from, to, delivered, errRep, eofRep, closedRep, lastTok, cancelled, open, callErr, bad>>

Dec(e) ==
    \* C11: blocks outside the range are never decoded
    /\ bad' = Flag(InRange(e.id), "C11_decoded_outside_range")
    /\ UNCHANGED <<mode, total, from, to, delivered, errRep, eofRep, closedRep, holder, lastTok, cancelled, open, callErr>>

Fin0(e) ==
    /\ holder' = IF holder = e.id THEN 0 ELSE holder
    /\ callErr' = (callErr \/ e.err # 0)
    /\ UNCHANGED <<mode, total, from, to, delivered, errRep, eofRep, closedRep, lastTok, cancelled, open, bad>>

Fin1(e) ==
    /\ open' = open \ {e.id}
    /\ cancelled' = (cancelled \/ e.counter = -1)
    /\ bad' = Flag(e.id \in open, "C07_unknown_task")
    /\ UNCHANGED <<mode, total, from, to, delivered, errRep, eofRep, closedRep, holder, lastTok, callErr>>

Next ==
    /\ l <= Len(Trace)
    /\ l' = l + 1
    /\ LET e == Trace[l] IN
         CASE e.ev = "Reset"   -> Reset(e)
           [] e.ev = "Read"    -> Read(e)
           [] e.ev = "Close"   -> CloseEv(e)
           [] e.ev = "R_SPAWN" -> Spawn(e)
           [] e.ev = "R_JOIN"  -> JoinEv(e)
           [] e.ev = "D_SEEN"  -> Seen(e)
           [] e.ev = "D_REL"   -> Rel(e)
           [] e.ev = "D_DEC"   -> Dec(e)
           [] e.ev = "D_FIN0"  -> Fin0(e)
           [] e.ev = "D_FIN1"  -> Fin1(e)
           [] OTHER            -> UNCHANGED <<mode, total, from, to, delivered, errRep, eofRep, closedRep, holder, lastTok, cancelled, open, callErr, bad>>

Spec == Init /\ [][Next]_vars

NoViolation == bad = "none"
\* every line was consumed (one state per line plus the initial state)
Consumed == TLCGet("stats").diameter - 1 = Len(Trace)
=============================================================================
