------------------------------- MODULE KzCli -------------------------------
(***************************************************************************)
(* One file task of the command line tool (v2/app/BlockCompressor.go       *)
(* fileCompressTask.call, BlockDecompressor.go fileDecompressTask.call) as *)
(* a sequence of file system actions, with a Crash (SIGKILL) enabled in    *)
(* every state.  The file system is a map name -> state; the content of a  *)
(* file is abstract:                                                       *)
(*   "orig"      the source, untouched                                     *)
(*   "other"     a file that existed before the run (not ours)             *)
(*   "partial"   an output that does not (yet) hold the whole result       *)
(*   "complete"  an output that decodes (resp. equals) to the source       *)
(* Order = "asis": as coded (stream closed, then source removed).          *)
(* Order = "unlinkfirst": a wrong order, kept to show the invariant fails. *)
(***************************************************************************)
EXTENDS Integers, FiniteSets, TLC

CONSTANTS Rm,          \* --rm given
          Force,       \* -f given
          OutExists,   \* an output file of that name exists before the run
          SameFile,    \* the output name designates the input file
          Chunks,      \* number of write calls needed for the output
          Order

VARIABLES pc, src, out, written, exit
vars == <<pc, src, out, written, exit>>

Absent == [exists |-> FALSE, content |-> "none"]

Init == /\ pc = "start"
        /\ src = [exists |-> TRUE, content |-> "orig"]
        /\ out = IF SameFile THEN [exists |-> TRUE, content |-> "orig"]
                 ELSE IF OutExists THEN [exists |-> TRUE, content |-> "other"] ELSE Absent
        /\ written = 0 /\ exit = -1

\* openOutputFile: O_EXCL without -f; same-file test then O_TRUNC with -f
OpenOut ==
    /\ pc = "start"
    /\ IF ~Force THEN
          IF out.exists THEN pc' = "failed" /\ exit' = 1 /\ UNCHANGED <<out, src>>
          ELSE pc' = "openin" /\ out' = [exists |-> TRUE, content |-> "partial"] /\ UNCHANGED <<exit, src>>
       ELSE IF SameFile THEN pc' = "failed" /\ exit' = 1 /\ UNCHANGED <<out, src>>
       ELSE pc' = "openin" /\ out' = [exists |-> TRUE, content |-> "partial"] /\ UNCHANGED <<exit, src>>
    /\ UNCHANGED written

OpenIn == /\ pc = "openin" /\ pc' = "copy" /\ UNCHANGED <<src, out, written, exit>>

\* one flush of the stream into the output file (the final ones happen in Close of the stream)
WriteOut == /\ pc = "copy" /\ written < Chunks
            /\ written' = written + 1
            /\ UNCHANGED <<pc, src, out, exit>>

\* cos.Close(): the last bytes are written and the output file is closed
CloseStream == /\ pc = "copy" /\ written = Chunks
               /\ out' = [out EXCEPT !.content = "complete"]
               /\ pc' = IF Rm THEN "unlink" ELSE "done"
               /\ exit' = IF Rm THEN exit ELSE 0
               /\ UNCHANGED <<src, written>>

Unlink == /\ pc = "unlink"
          /\ src' = Absent
          /\ pc' = "done" /\ exit' = 0
          /\ UNCHANGED <<out, written>>

\* (wrong order) the source is removed before the stream is closed
UnlinkFirst == /\ Order = "unlinkfirst" /\ Rm /\ pc = "copy" /\ written = Chunks /\ src.exists
               /\ src' = Absent
               /\ UNCHANGED <<pc, out, written, exit>>

Crash == /\ pc \notin {"done", "failed", "crashed"}
         /\ pc' = "crashed"
         /\ UNCHANGED <<src, out, written, exit>>

Finished == pc \in {"done", "failed", "crashed"} /\ UNCHANGED vars

Next == OpenOut \/ OpenIn \/ WriteOut \/ CloseStream \/ Unlink \/ UnlinkFirst \/ Crash \/ Finished
Spec == Init /\ [][Next]_vars

\* C19: at any moment each source either still exists intact or its output is complete
CrashSafe == (src.exists /\ src.content = "orig") \/ (out.exists /\ out.content = "complete")
\* C19: an existing file is never overwritten unless forced
NoClobber == (OutExists /\ ~Force /\ ~SameFile) => (out.exists /\ out.content = "other")
\* C19: the tool never writes to its own input
NeverWritesInput == SameFile => (out.exists /\ out.content = "orig")
\* C19: the input is never modified; it only disappears with --rm after a successful run
InputIntact == /\ (src.exists => src.content = "orig")
               /\ (~src.exists => (Rm /\ out.content = "complete"))
\* exit status 0 means the job is done
ExitOK == exit = 0 => (out.exists /\ out.content = "complete" /\ (Rm <=> ~src.exists))
=============================================================================
