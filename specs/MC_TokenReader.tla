--------------------------- MODULE MC_TokenReader ---------------------------
(***************************************************************************)
(* KzReader (the implementation-shaped spec that is replayed on the real    *)
(* Reader) refines the hand-off protocol KzToken, whose safety clauses are  *)
(* proved for every N in KzTokenProofs.  TLC checks the step simulation     *)
(* (PROPERTY TokSpec) on the same configurations the C07 check replays.     *)
(* top / nn are the history variables of KzToken, added here to KzReader.   *)
(***************************************************************************)
EXTENDS KzReader

VARIABLES top, nn

Rel(c, bf) == IF c = CANCEL THEN -1 ELSE c - bf
Active == Cardinality({t \in Tasks : tpc[t] # "idle"})

HInit == Init /\ top = 0 /\ nn = 0
HNext == /\ Next
         /\ top' = IF counter' = CANCEL THEN top ELSE counter' - batchFirst'
         /\ nn' = Cardinality({t \in Tasks : tpc'[t] # "idle"})
HSpec == HInit /\ [][HNext]_<<vars, top, nn>>

MapPc(p) == CASE p = "idle" -> "idle"
              [] p = "wait" -> "wait"
              [] p \in {"shared", "publish"} -> "crit"
              [] p = "decode" -> "post"
              [] p = "fin" -> "fin"
              [] p = "done" -> "done"

WillCancel(t) == tpc[t] \in {"fin", "done"} /\ (tres[t].err \/ (tres[t].dec = 0 /\ ~tres[t].skipped))

Tok == INSTANCE KzToken WITH
         N <- Jobs,
         Impl <- IF Impl = "fixed" THEN "cas" ELSE "store",
         counter <- Rel(counter, batchFirst),
         pc <- [t \in 1..Jobs |-> IF (t - 1) \in Tasks THEN MapPc(tpc[t - 1]) ELSE "idle"],
         failed <- [t \in 1..Jobs |-> (t - 1) \in Tasks /\ WillCancel(t - 1)],
         top <- top,
         n <- nn

TokSpec == Tok!Spec
TokInv == Tok!Inv
TokMutex == Tok!Mutex
TokOrdered == Tok!Ordered
=============================================================================
