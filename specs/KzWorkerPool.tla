---------------------------- MODULE KzWorkerPool ----------------------------
(***************************************************************************)
(* The file worker pool of the command line tool (v2/app/BlockCompressor.go *)
(* Compress() l.544-607 and fileCompressWorker, same shape in              *)
(* BlockDecompressor.go): one buffered channel of tasks (closed once all   *)
(* tasks are queued), W workers that take a task, run it and send the      *)
(* result, a main goroutine that collects results and, on the first        *)
(* failure, exits early: cancel <- true; close(cancel); close(results).    *)
(* This module grows the specification beyond the listed properties.       *)
(*                                                                         *)
(* Close = "asis": results is closed after an early exit while workers may *)
(* still be running a task; their send then panics ("send on closed        *)
(* channel") and kills the process with a stack trace instead of the exit  *)
(* code of the failure.  Reproduced on the real tool (6 of 40 runs: a      *)
(* directory of 300 small files, one existing output, -j 8, no -f).        *)
(* Close = "never": the channel is left to the garbage collector.          *)
(***************************************************************************)
EXTENDS Integers, FiniteSets, Sequences, TLC

CONSTANTS NTasks, NWorkers, Failing,   \* set of task numbers that fail
          Close

Workers == 1..NWorkers

VARIABLES queue,      \* tasks not yet taken (the tasks channel, already closed by the producer)
          wpc,        \* worker: "idle" | "run" | "send" | "exit"
          wtask,      \* task held by a worker
          results,    \* number of results in the channel
          failed,     \* a failing result is in the channel
          collected,  \* results taken by main
          mainpc,     \* "collect" | "closing" | "done"
          resClosed, cancelled, panic
vars == <<queue, wpc, wtask, results, failed, collected, mainpc, resClosed, cancelled, panic>>

Init == /\ queue = [i \in 1..NTasks |-> i]
        /\ wpc = [w \in Workers |-> "idle"] /\ wtask = [w \in Workers |-> 0]
        /\ results = <<>> /\ failed = FALSE /\ collected = 0 /\ mainpc = "collect"
        /\ resClosed = FALSE /\ cancelled = FALSE /\ panic = FALSE

\* select { case t, more := <-tasks ; case c := <-cancel }
Take(w) == /\ wpc[w] = "idle" /\ ~panic
           /\ \/ /\ queue # <<>>
                 /\ wtask' = [wtask EXCEPT ![w] = Head(queue)] /\ queue' = Tail(queue)
                 /\ wpc' = [wpc EXCEPT ![w] = "run"]
              \/ /\ (queue = <<>> \/ cancelled)
                 /\ wpc' = [wpc EXCEPT ![w] = "exit"] /\ UNCHANGED <<wtask, queue>>
           /\ UNCHANGED <<results, failed, collected, mainpc, resClosed, cancelled, panic>>

Run(w) == /\ wpc[w] = "run" /\ ~panic
          /\ wpc' = [wpc EXCEPT ![w] = "send"]
          /\ UNCHANGED <<queue, wtask, results, failed, collected, mainpc, resClosed, cancelled, panic>>

\* results <- fileCompressResult{...}   (the channel is buffered for NTasks results: never blocks)
Send(w) == /\ wpc[w] = "send" /\ ~panic
           /\ IF resClosed THEN panic' = TRUE /\ UNCHANGED <<results, wpc>>
              ELSE /\ results' = Append(results, wtask[w] \in Failing)
                   /\ wpc' = [wpc EXCEPT ![w] = IF wtask[w] \in Failing THEN "exit" ELSE "idle"]
                   /\ UNCHANGED panic
           /\ UNCHANGED <<queue, wtask, failed, collected, mainpc, resClosed, cancelled>>

Collect == /\ mainpc = "collect" /\ ~panic
           /\ IF collected = NTasks THEN mainpc' = "closing" /\ UNCHANGED <<results, collected, failed>>
              ELSE /\ results # <<>>
                   /\ results' = Tail(results) /\ collected' = collected + 1
                   /\ failed' = Head(results)
                   /\ mainpc' = IF Head(results) THEN "closing" ELSE "collect"
           /\ UNCHANGED <<queue, wpc, wtask, resClosed, cancelled, panic>>

Closing == /\ mainpc = "closing" /\ ~panic
           /\ cancelled' = TRUE
           /\ resClosed' = (Close = "asis")
           /\ mainpc' = "done"
           /\ UNCHANGED <<queue, wpc, wtask, results, failed, collected, panic>>

Finished == (mainpc = "done" \/ panic) /\ UNCHANGED vars

Next == (\E w \in Workers : Take(w) \/ Run(w) \/ Send(w)) \/ Collect \/ Closing \/ Finished
Spec == Init /\ [][Next]_vars

\* no goroutine ever sends on a closed channel (a panic that kills the process)
NoSendOnClosed == ~panic
\* main never waits for a result that will not come
MainProgress == (mainpc = "collect" /\ collected < NTasks /\ results = <<>>) => \E w \in Workers : wpc[w] \in {"run", "send"} \/ (wpc[w] = "idle" /\ queue # <<>>)
=============================================================================
