--------------------------- MODULE KzTokenProofs ---------------------------
(***************************************************************************)
(* TLAPS proofs of the safety clauses of C07 for the hand-off protocol of   *)
(* KzToken, for EVERY number of tasks N >= 1 (compare-and-swap variant).    *)
(* Checked by:  tlapm --threads 16 KzTokenProofs.tla   (bin/check C07)      *)
(***************************************************************************)
EXTENDS KzToken, TLAPS

ASSUME ImplCas == Impl = "cas"

LEMMA InitInv == Init => Inv
  BY NPos DEF Init, Inv, TypeOK, CANCEL, Task, PCs

LEMMA StartInv == ASSUME Inv, NEW k \in Task, Start(k) PROVE Inv'
  BY NPos DEF Inv, TypeOK, Start, CANCEL, Task, PCs

LEMMA JoinInv == ASSUME Inv, Join PROVE Inv'
  BY NPos DEF Inv, TypeOK, Join, CANCEL, Task, PCs

LEMMA LocalFailInv == ASSUME Inv, NEW t \in Task, LocalFail(t) PROVE Inv'
  BY NPos DEF Inv, TypeOK, LocalFail, CANCEL, Task, PCs

LEMMA EnterInv == ASSUME Inv, NEW t \in Task, Enter(t) PROVE Inv'
  BY NPos DEF Inv, TypeOK, Enter, CANCEL, Task, PCs

LEMMA SeeCancelInv == ASSUME Inv, NEW t \in Task, SeeCancel(t) PROVE Inv'
  BY NPos DEF Inv, TypeOK, SeeCancel, CANCEL, Task, PCs

LEMMA CritFailInv == ASSUME Inv, NEW t \in Task, CritFail(t) PROVE Inv'
  BY NPos DEF Inv, TypeOK, CritFail, CANCEL, Task, PCs

LEMMA PublishInv == ASSUME Inv, NEW t \in Task, Publish(t) PROVE Inv'
  BY NPos, ImplCas DEF Inv, TypeOK, Publish, NewTop, CANCEL, Task, PCs

LEMMA LeaveInv == ASSUME Inv, NEW t \in Task, Leave(t) PROVE Inv'
  BY NPos DEF Inv, TypeOK, Leave, CANCEL, Task, PCs

LEMMA PostInv == ASSUME Inv, NEW t \in Task, Post(t) PROVE Inv'
  BY NPos DEF Inv, TypeOK, Post, CANCEL, Task, PCs

LEMMA FinInv == ASSUME Inv, NEW t \in Task, Fin(t) PROVE Inv'
  BY NPos DEF Inv, TypeOK, Fin, NewTop, CANCEL, Task, PCs

LEMMA NextInv == Inv /\ [Next]_vars => Inv'
<1> SUFFICES ASSUME Inv, [Next]_vars PROVE Inv'
  OBVIOUS
<1>1 CASE UNCHANGED vars
  BY <1>1 DEF Inv, TypeOK, vars
<1>2 CASE \E k \in Task : Start(k)
  BY <1>2, StartInv
<1>4 CASE Join
  BY <1>4, JoinInv
<1>3 CASE \E t \in Task : Step(t)
  BY <1>3, LocalFailInv, EnterInv, SeeCancelInv, CritFailInv, PublishInv, LeaveInv, PostInv, FinInv DEF Step
<1> QED BY <1>1, <1>2, <1>3, <1>4 DEF Next

THEOREM Invariance == Spec => []Inv
  BY InitInv, NextInv, PTL DEF Spec

THEOREM InvMutex == Inv => Mutex
  BY NPos DEF Inv, TypeOK, Mutex, Task, PCs

THEOREM InvOrdered == Inv => Ordered
  BY NPos DEF Inv, TypeOK, Ordered, Task, PCs

THEOREM InvFailureCancels == Inv => FailureCancels
  BY DEF Inv, FailureCancels

THEOREM Safety == Spec => [](Mutex /\ Ordered /\ FailureCancels)
  BY Invariance, InvMutex, InvOrdered, InvFailureCancels, PTL

LEMMA StickStep == Inv /\ [Next]_vars => (counter = CANCEL => counter' = CANCEL)
<1> SUFFICES ASSUME Inv, [Next]_vars, counter = CANCEL PROVE counter' = CANCEL
  OBVIOUS
<1>1 CASE UNCHANGED vars
  BY <1>1 DEF vars
<1>2 CASE \E k \in Task : Start(k)
  BY <1>2 DEF Start
<1>4 CASE Join
  BY <1>4 DEF Join
<1>3 CASE \E t \in Task : Step(t)
  BY <1>3, ImplCas, NPos DEF Step, LocalFail, Enter, SeeCancel, CritFail, Publish, Leave, Post, Fin, CANCEL, Task, Inv, TypeOK
<1> QED BY <1>1, <1>2, <1>3, <1>4 DEF Next

THEOREM Sticks == Spec => CancelSticks
<1>1 Inv /\ [Next]_vars => [counter = CANCEL => counter' = CANCEL]_vars
  BY StickStep
<1> QED BY <1>1, Invariance, PTL DEF Spec, CancelSticks

LEMMA NoEnterStep == Inv /\ [Next]_vars => (\A t \in Task : (counter = CANCEL /\ pc[t] = "wait") => pc'[t] # "crit")
<1> SUFFICES ASSUME Inv, [Next]_vars, NEW t \in Task, counter = CANCEL, pc[t] = "wait" PROVE pc'[t] # "crit"
  OBVIOUS
<1>1 CASE UNCHANGED vars
  BY <1>1 DEF vars
<1>2 CASE \E k \in Task : Start(k)
  BY <1>2 DEF Start
<1>4 CASE Join
  BY <1>4 DEF Join
<1>3 CASE \E u \in Task : Step(u)
  BY <1>3, NPos DEF Step, LocalFail, Enter, SeeCancel, CritFail, Publish, Leave, Post, Fin, CANCEL, Task, Inv, TypeOK
<1> QED BY <1>1, <1>2, <1>3, <1>4 DEF Next

THEOREM NoEnter == Spec => NoEnterAfterCancel
<1>1 Inv /\ [Next]_vars => [\A t \in Task : (counter = CANCEL /\ pc[t] = "wait") => pc'[t] # "crit"]_vars
  BY NoEnterStep
<1> QED BY <1>1, Invariance, PTL DEF Spec, NoEnterAfterCancel
=============================================================================
