------------------------------ MODULE KzBitIn ------------------------------
(***************************************************************************)
(* bitstream.DefaultInputBitStream (v2/bitstream/DefaultInputBitStream.go) *)
(* transcribed path by path (pull with its partial-word branch,            *)
(* readFromInputStream, ReadBit, ReadBits, the aligned and unaligned paths *)
(* of ReadArray), over a source that delivers its bytes in arbitrary       *)
(* chunks and may fail.                                                    *)
(*                                                                         *)
(* Bits are identities: bit j (1 = most significant) of source byte b is   *)
(* the number 8(b-1)+j.  What the caller receives must be 1, 2, 3, ... in  *)
(* order whatever the chunking (C06, C14), Read() must count them, and an  *)
(* end-of-data panic may only happen when the request really exceeds the   *)
(* source (C06) or the source failed (C08).                                *)
(*                                                                         *)
(* Impl = "asis": one Read of the source per refill (commit 76efab5).      *)
(* Impl = "fixed": the buffer is filled until full, end or error.          *)
(*                                                                         *)
(* Over > 0 lets the caller ask for more bits than the source holds (a     *)
(* truncated stream, C09; forged lengths, C03): such a request must end in *)
(* the end-of-data panic, whatever the operation, the alignment and the    *)
(* size of the last partial word (OverreadFails).                          *)
(***************************************************************************)
EXTENDS Integers, Sequences, TLC

CONSTANTS N,          \* bytes in the source
          BUF,        \* internal buffer size in bytes (multiple of 8)
          Chunks,     \* set of chunk sizes the source may deliver per Read call
          BitsOps,    \* counts for ReadBits
          ArrOps,     \* bit counts for ReadArray
          ErrAt,      \* the source fails (instead of delivering data) once this many bytes were delivered; -1 = never
          Over,       \* a request may exceed the source by up to this many bits (0: the caller never reads beyond the data)
          Impl        \* "asis" | "fixed" | "nocheck" (self-test: ReadBits trusts the word returned by pull)

X == -1
ZeroW == [i \in 1..64 |-> 0]
Or(a, b) == [i \in 1..64 |-> IF a[i] = 0 THEN b[i] ELSE IF b[i] = 0 THEN a[i] ELSE IF a[i] = b[i] THEN a[i] ELSE X]
Shl(w, k) == [i \in 1..64 |-> IF i + k <= 64 THEN w[i + k] ELSE 0]
Shr(w, k) == [i \in 1..64 |-> IF i - k >= 1 THEN w[i - k] ELSE 0]
Bit(byte, j) == (byte - 1) * 8 + j
\* big-endian 64-bit word from 8 buffer bytes starting at buffer index p (0-based); b holds source byte numbers
WordAt(b, p) == [i \in 1..64 |-> Bit(b[p + ((i - 1) \div 8) + 1], ((i - 1) % 8) + 1)]
Limit == IF ErrAt >= 0 /\ ErrAt < N THEN ErrAt ELSE N      \* number of bytes the source can deliver

VARIABLES srcPos,   \* next source byte to deliver (1-based)
          buf,      \* source byte numbers currently in the internal buffer (length = maxPosition + 1)
          pos,      \* position
          cur, avail,
          consumed, \* the field `read`: bits of the buffers that were replaced
          pend,     \* pendingErr: "none" | "eof" | "err"
          outBits,  \* every bit handed to the caller, in order
          status,   \* "ok" | "eof" (panic: no more data) | "err" (panic: source error)
          asked     \* bits requested so far, including the operation that failed
vars == <<srcPos, buf, pos, cur, avail, consumed, pend, outBits, status, asked>>

Init == /\ srcPos = 1 /\ buf = <<>> /\ pos = 0 /\ cur = ZeroW /\ avail = 0 /\ consumed = 0 /\ pend = "none"
        /\ outBits = <<>> /\ status = "ok" /\ asked = 0

S0 == [sp |-> srcPos, b |-> buf, p |-> pos, w |-> cur, a |-> avail, rd |-> consumed, pe |-> pend, st |-> "ok"]
MaxPos(b) == Len(b) - 1
Min2(x, y) == IF x < y THEN x ELSE y

(***************************************************************************)
(* readFromInputStream(len(buffer)) with chunk size c  (l.213-246)         *)
(***************************************************************************)
\* what one Read call of the source returns from position sp: <<number of bytes, error>>
SrcRead(sp, want, c) ==
    IF sp > Limit THEN <<0, IF Limit < N THEN "err" ELSE "eof">>
    ELSE <<Min2(Min2(c, want), Limit - sp + 1), "none">>

RECURSIVE FillLoop(_, _, _, _)
\* (fixed) keep reading until the buffer is full or the source ends / fails: returns <<size, err>>
FillLoop(sp, size, c, guard) ==
    IF size >= BUF \/ guard = 0 THEN <<size, "none">>
    ELSE LET r == SrcRead(sp + size, BUF - size, c)
         IN IF r[1] = 0 THEN <<size, r[2]>> ELSE FillLoop(sp, size + r[1], c, guard - 1)

Refill(s, c) ==
    IF s.pe # "none" THEN [s EXCEPT !.b = <<>>, !.st = s.pe]                 \* deferred error surfaces, maxPosition = -1
    ELSE LET r == IF Impl = "asis" THEN SrcRead(s.sp, BUF, c) ELSE FillLoop(s.sp, 0, c, BUF)
             size == r[1]
         IN IF size = 0
            THEN [s EXCEPT !.rd = s.rd + 8 * s.p, !.p = 0, !.b = <<>>, !.st = IF r[2] = "err" THEN "err" ELSE "eof"]
            ELSE [s EXCEPT !.rd = s.rd + 8 * s.p, !.p = 0, !.b = [k \in 1..size |-> s.sp + k - 1], !.sp = s.sp + size,
                           !.pe = r[2]]

(***************************************************************************)
(* pull()  (l.268-294)                                                     *)
(***************************************************************************)
Pull(s, c) ==
    LET s1 == IF s.p > MaxPos(s.b) THEN Refill(s, c) ELSE s
    IN IF s1.st # "ok" THEN s1
       ELSE IF s1.p + 7 > MaxPos(s1.b) THEN
            \* end of the buffer: a partial word, right aligned
            LET nb == MaxPos(s1.b) - s1.p + 1
                a == 8 * nb
            IN [s1 EXCEPT !.w = [i \in 1..64 |-> IF i > 64 - a THEN Bit(s1.b[s1.p + ((i - (64 - a) - 1) \div 8) + 1], ((i - (64 - a) - 1) % 8) + 1) ELSE 0],
                          !.a = a, !.p = s1.p + nb]
       ELSE [s1 EXCEPT !.w = WordAt(s1.b, s1.p), !.a = 64, !.p = s1.p + 8]

Take(w, a, count) == [k \in 1..count |-> w[64 - a + k]]

(***************************************************************************)
(* ReadBits(count): returns <<state, bits>>  (l.78-94)                     *)
(***************************************************************************)
RECURSIVE RB(_, _, _, _)
RB(s, count, c, guard) ==
    IF count <= s.a THEN <<[s EXCEPT !.a = s.a - count], Take(s.w, s.a, count)>>
    ELSE IF guard = 0 THEN <<[s EXCEPT !.st = "eof"], <<>>>>
    ELSE LET head == Take(s.w, s.a, s.a)
             pl == Pull([s EXCEPT !.a = 0], c)
         IN IF pl.st # "ok" THEN <<pl, head>>
            ELSE IF Impl = "nocheck" /\ pl.a < count - s.a THEN
                 \* (self-test) availBits -= count without looking at what pull returned: the counter wraps and the
                 \* stream keeps serving phantom zero bits
                 <<[pl EXCEPT !.a = 64], head \o [k \in 1..(count - s.a) |-> 0]>>
            ELSE LET rest == RB(pl, count - s.a, c, guard - 1) IN <<rest[1], head \o rest[2]>>

(***************************************************************************)
(* ReadArray(bits, count): returns <<state, bits>>  (l.99-211)             *)
(***************************************************************************)
RECURSIVE EmptyCur(_, _, _, _)       \* aligned: empty `current` byte by byte  (l.118-122)
EmptyCur(s, rem, acc, c) ==
    IF s.st = "ok" /\ s.a # 0 /\ rem >= 8
    THEN LET r == RB(s, 8, c, 4) IN EmptyCur(r[1], rem - 8, acc \o r[2], c)
    ELSE <<s, rem, acc>>

BufBits(b, p, nbytes) == [k \in 1..(8 * nbytes) |-> Bit(b[p + ((k - 1) \div 8) + 1], ((k - 1) % 8) + 1)]

RECURSIVE CopyBuf(_, _, _, _, _)     \* aligned: copy whole buffers  (l.127-138)
CopyBuf(s, rem, acc, c, guard) ==
    LET availBytes == MaxPos(s.b) + 1 - s.p IN
    IF s.st = "ok" /\ guard > 0 /\ (rem \div 8) > availBytes
    THEN LET acc1 == acc \o BufBits(s.b, s.p, availBytes)
             s1 == Refill([s EXCEPT !.p = MaxPos(s.b) + 1], c)
         IN CopyBuf(s1, rem - 8 * availBytes, acc1, c, guard - 1)
    ELSE <<s, rem, acc>>

RECURSIVE Loop256(_, _, _, _, _, _)  \* unaligned, 32 bytes at a time  (l.153-182)
Loop256(s, rem, acc, c, r0, a0) ==
    IF s.st = "ok" /\ rem >= 256 THEN
        IF s.p + 32 > MaxPos(s.b) THEN
            LET pl == Pull(s, c)
            IN IF pl.st # "ok" THEN <<pl, rem, acc>>
               ELSE IF pl.a < r0 THEN <<[pl EXCEPT !.st = "eof"], rem, acc>>      \* "No more data to read in the bitstream"
               ELSE LET a2 == pl.a - r0
                        o == Or(Shl(s.w, r0), Shr(pl.w, a2))
                    IN Loop256([pl EXCEPT !.a = a2], rem - 64, acc \o [k \in 1..64 |-> o[k]], c, r0, a0)
        ELSE LET v1 == WordAt(s.b, s.p) v2 == WordAt(s.b, s.p + 8) v3 == WordAt(s.b, s.p + 16) v4 == WordAt(s.b, s.p + 24)
                 o1 == Or(Shl(s.w, r0), Shr(v1, a0))
                 o2 == Or(Shl(v1, r0), Shr(v2, a0))
                 o3 == Or(Shl(v2, r0), Shr(v3, a0))
                 o4 == Or(Shl(v3, r0), Shr(v4, a0))
             IN Loop256([s EXCEPT !.p = s.p + 32, !.w = v4], rem - 256,
                        acc \o [k \in 1..64 |-> o1[k]] \o [k \in 1..64 |-> o2[k]] \o [k \in 1..64 |-> o3[k]] \o [k \in 1..64 |-> o4[k]], c, r0, a0)
    ELSE <<s, rem, acc>>

RECURSIVE Loop64(_, _, _, _, _)      \* unaligned, one word at a time  (l.184-196)
Loop64(s, rem, acc, c, r0) ==
    IF s.st = "ok" /\ rem >= 64 THEN
        LET pl == Pull(s, c)
        IN IF pl.st # "ok" THEN <<pl, rem, acc>>
           ELSE IF pl.a < r0 THEN <<[pl EXCEPT !.st = "eof"], rem, acc>>
           ELSE LET a2 == pl.a - r0
                    o == Or(Shl(s.w, r0), Shr(pl.w, a2))
                IN Loop64([pl EXCEPT !.a = a2], rem - 64, acc \o [k \in 1..64 |-> o[k]], c, r0)
    ELSE <<s, rem, acc>>

RECURSIVE TailBits(_, _, _, _)           \* last bytes and bits  (l.200-208)
TailBits(s, rem, acc, c) ==
    IF s.st # "ok" \/ rem = 0 THEN <<s, acc>>
    ELSE LET k == IF rem >= 8 THEN 8 ELSE rem
             r == RB(s, k, c, 4)
         IN IF r[1].st # "ok" THEN <<r[1], acc>> ELSE TailBits(r[1], rem - k, acc \o r[2], c)

RA(s, count, c) ==
    IF count = 0 THEN <<s, <<>>>>
    ELSE IF s.a % 8 = 0 THEN
        LET s1 == IF s.a = 0 THEN Pull(s, c) ELSE s
        IN IF s1.st # "ok" THEN <<s1, <<>>>>
           ELSE LET e == EmptyCur(s1, count, <<>>, c)
                    cp == CopyBuf(e[1], e[2], e[3], c, N + 2)
                    s2 == cp[1]
                    r8 == (cp[2] \div 64) * 8
                IN IF s2.st # "ok" THEN <<s2, cp[3]>>
                   ELSE TailBits([s2 EXCEPT !.p = s2.p + r8], cp[2] - 8 * r8, cp[3] \o BufBits(s2.b, s2.p, r8), c)
    ELSE LET r0 == 64 - s.a
             a0 == s.a
             l1 == Loop256(s, count, <<>>, c, r0, a0)
             l2 == Loop64(l1[1], l1[2], l1[3], c, r0)
         IN TailBits(l2[1], l2[2], l2[3], c)

Apply(r) ==
    LET s == r[1] IN
    /\ srcPos' = s.sp /\ buf' = s.b /\ pos' = s.p /\ cur' = s.w /\ avail' = s.a /\ consumed' = s.rd /\ pend' = s.pe
    /\ status' = s.st
    /\ outBits' = IF s.st = "ok" THEN outBits \o r[2] ELSE outBits

Budget(k) == /\ Len(outBits) + k <= 8 * N + Over
             /\ asked' = asked + k

ReadBitsOp(k, c) == status = "ok" /\ Budget(k) /\ Apply(RB(S0, k, c, 4))
\* ReadBit()  (l.66-73)
ReadBitOp(c) == /\ status = "ok" /\ Budget(1)
                /\ LET s1 == IF avail = 0 THEN Pull(S0, c) ELSE S0
                   IN IF s1.st # "ok" THEN Apply(<<s1, <<>>>>)
                      ELSE Apply(<<[s1 EXCEPT !.a = s1.a - 1], <<s1.w[64 - s1.a + 1]>>>>)
ReadArrayOp(k, c) == status = "ok" /\ Budget(k) /\ Apply(RA(S0, k, c))

Done == (status # "ok" \/ Len(outBits) >= 8 * N - 8) /\ UNCHANGED vars

Next == \/ \E c \in Chunks : \/ \E k \in BitsOps : ReadBitsOp(k, c)
                             \/ ReadBitOp(c)
                             \/ \E k \in ArrOps : ReadArrayOp(k, c)
        \/ Done
Spec == Init /\ [][Next]_vars

(***************************************************************************)
(* Properties                                                              *)
(***************************************************************************)
\* C06/C14: what the caller received is exactly the next bits of the source, in order, whatever the chunking
InOrder == \A i \in 1..Len(outBits) : outBits[i] = i
\* C09/C03: a request that goes beyond what the source can deliver never returns
OverreadFails == asked > 8 * Limit => status # "ok"
\* C06: "no more data" only when the request really goes beyond what the source can deliver.
\* (requests are limited to N bytes by Budget: when the source delivers all its N bytes it must never happen; when the
\*  source fails early, running out of bits is the expected outcome and the panic message may be either one)
NoSpuriousEOF == status = "eof" => (Limit < N \/ asked > 8 * N)
\* C08: a source error is reported as such, and only when the requested bits are not all available
ErrOnlyWhenNeeded == status = "err" => (ErrAt >= 0 /\ ErrAt < N)
\* C14: Read() counts the bits delivered
ReadFn == consumed + 8 * pos - avail
Counter == status = "ok" => ReadFn = Len(outBits)
=============================================================================
