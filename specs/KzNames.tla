------------------------------ MODULE KzNames ------------------------------
(***************************************************************************)
(* Codec names and numeric types of bitstream format 6 (transform/         *)
(* Factory.go, entropy/EntropyCodecFactory.go, README).  A transform chain *)
(* is packed left-aligned into 8 slots of 6 bits with NONE removed; since  *)
(* the 48-bit value exceeds TLC integers it is represented by the sequence *)
(* of its 8 slot codes.  A spelling is a canonical name plus a case mask   *)
(* (the harness applies the mask to produce the real string): names are    *)
(* case-insensitive, so nothing below depends on the mask.                 *)
(***************************************************************************)
EXTENDS Integers, Sequences, FiniteSets, TLC

TCode == [NONE |-> 0, BWT |-> 1, BWTS |-> 2, LZ |-> 3, RLT |-> 5, ZRLT |-> 6, MTFT |-> 7, RANK |-> 8, EXE |-> 9,
          TEXT |-> 10, ROLZ |-> 11, ROLZX |-> 12, SRT |-> 13, LZP |-> 14, MM |-> 15, LZX |-> 16, UTF |-> 17,
          PACK |-> 18, DNA |-> 19]
TNames == DOMAIN TCode

ECode == [NONE |-> 0, HUFFMAN |-> 1, FPAQ |-> 2, RANGE |-> 4, ANS0 |-> 5, CM |-> 6, TPAQ |-> 7, ANS1 |-> 8, TPAQX |-> 9]
ENames == DOMAIN ECode

TNameOf(c) == CHOOSE n \in TNames : TCode[n] = c
ENameOf(c) == CHOOSE n \in ENames : ECode[n] = c

\* remove the NONE elements of a chain of canonical names
RECURSIVE Strip(_)
Strip(ch) == IF ch = <<>> THEN <<>>
             ELSE IF Head(ch) = "NONE" THEN Strip(Tail(ch)) ELSE <<Head(ch)>> \o Strip(Tail(ch))

\* canonical form of a chain: NONE removed, a chain of NONE only is "NONE"
Canon(ch) == IF Strip(ch) = <<>> THEN <<"NONE">> ELSE Strip(ch)

\* the 8 slot codes of a chain
Pack(ch) == LET st == Strip(ch) IN [i \in 1..8 |-> IF i <= Len(st) THEN TCode[st[i]] ELSE 0]

\* the chain named by 8 slot codes (zero slots are skipped wherever they are)
RECURSIVE UnpackFrom(_, _)
UnpackFrom(codes, i) == IF i > 8 THEN <<>>
                        ELSE IF codes[i] = 0 THEN UnpackFrom(codes, i + 1)
                        ELSE <<TNameOf(codes[i])>> \o UnpackFrom(codes, i + 1)
Unpack(codes) == IF UnpackFrom(codes, 1) = <<>> THEN <<"NONE">> ELSE UnpackFrom(codes, 1)

\* which implementation variant a stage must use: decided by the numeric type alone
VariantOfT(c) == CASE c = 11 -> "ROLZ" [] c = 12 -> "ROLZX" [] c = 3 -> "LZ" [] c = 16 -> "LZX" [] c = 14 -> "LZP"
                   [] c = 8 -> "RANK" [] c = 7 -> "MTFT" [] c = 18 -> "PACK" [] c = 19 -> "DNA" [] OTHER -> TNameOf(c)

(***************************************************************************)
(* Finite check: all chains up to MaxChain over Names (model values are    *)
(* the canonical names).                                                   *)
(***************************************************************************)
CONSTANTS MaxChain, Names

VARIABLES chain
Init == chain \in UNION {[1..k -> Names] : k \in 1..MaxChain}
Next == UNCHANGED chain
Spec == Init /\ [][Next]_chain

\* GetName(GetType(x)) = Canon(x)
RoundTripName == Unpack(Pack(chain)) = Canon(chain)
\* GetType(GetName(t)) = t for every packed t
RoundTripType == Pack(Unpack(Pack(chain))) = Pack(chain)
\* packed types are left-aligned without holes
LeftAligned == \A i \in 1..7 : Pack(chain)[i] = 0 => Pack(chain)[i + 1] = 0
\* the codes are injective (no two names share a code)
Injective == /\ \A a, b \in TNames : TCode[a] = TCode[b] => a = b
             /\ \A a, b \in ENames : ECode[a] = ECode[b] => a = b
=============================================================================
