--------------------------- MODULE MC_TokenWriter ---------------------------
(***************************************************************************)
(* KzWriter refines the hand-off protocol KzToken (see MC_TokenReader).     *)
(***************************************************************************)
EXTENDS KzWriter

VARIABLES top, nn

Rel(c, bf) == IF c = CANCEL THEN -1 ELSE c - bf

HInit == Init /\ top = 0 /\ nn = 0
HNext == /\ Next
         /\ top' = IF counter' = CANCEL THEN top ELSE counter' - batchFirst'
         /\ nn' = Cardinality({t \in Tasks : et'[t].pc # "idle"})
HSpec == HInit /\ [][HNext]_<<vars, top, nn>>

MapPc(p) == CASE p = "idle" -> "idle"
              [] p \in {"local", "wait"} -> "wait"
              [] p = "emit" -> "crit"
              [] p = "fin" -> "fin"
              [] p = "done" -> "done"

Tok == INSTANCE KzToken WITH
         N <- Jobs,
         Impl <- "cas",
         counter <- Rel(counter, batchFirst),
         pc <- [t \in 1..Jobs |-> MapPc(et[t - 1].pc)],
         failed <- [t \in 1..Jobs |-> et[t - 1].pc \in {"fin", "done"} /\ et[t - 1].err],
         top <- top,
         n <- nn

TokSpec == Tok!Spec
TokInv == Tok!Inv
=============================================================================
