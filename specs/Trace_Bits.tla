------------------------------ MODULE Trace_Bits ------------------------------
(***************************************************************************)
(* Judge for C14 over programs executed on the real bit streams.           *)
(*  BITPROG sizes (bits of each operation), wcount (Written() after each   *)
(*          write), rcount (Read() after each read), image (the bytes      *)
(*          received by the sink are the big-endian concatenation of the   *)
(*          written bits padded with zeros), values (every read returned   *)
(*          the bits written), wPanic / rPanic, closedRefusesW/R, closeErr, *)
(*          cutOK (C09/C03 at bit level: on the image cut by a few bytes   *)
(*          every read before the cut is exact and the first read that     *)
(*          needs a bit beyond it ends in the end-of-stream panic)         *)
(***************************************************************************)
EXTENDS Integers, Sequences, TLC, Json, IOUtils
V == INSTANCE KzBitVec
Trace == ndJsonDeserialize(IOEnv.TRACE_FILE)
VARIABLES l
Init == l = 1
Bad(e) == IF e.wPanic # "" THEN "C14_write_faults"
          ELSE IF e.closeErr # "" THEN "C14_close_fails"
          ELSE IF e.wcount # V!Counters(e.sizes) THEN "C14_written_counter"
          ELSE IF ~e.image THEN "C14_byte_image"
          ELSE IF e.rPanic # "" THEN "C14_read_faults"
          ELSE IF ~e.values THEN "C14_read_values"
          ELSE IF e.rcount # V!Counters(e.sizes) THEN "C14_read_counter"
          ELSE IF ~e.closedRefusesW THEN "C14_closed_output_accepts_operations"
          ELSE IF ~e.closedRefusesR THEN "C14_closed_input_accepts_operations"
          ELSE IF ~e.cutOK THEN "C09_read_beyond_end_succeeds"
          ELSE "none"
Next == /\ l <= Len(Trace)
        /\ l' = l + 1
        /\ LET e == Trace[l] IN (e.ev = "BITPROG" /\ Bad(e) # "none") => PrintT(<<"VIOLATION_AT", l, Bad(e)>>)
Spec == Init /\ [][Next]_l
Consumed == TLCGet("stats").diameter - 1 = Len(Trace)
=============================================================================
