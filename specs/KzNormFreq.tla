---------------------------- MODULE KzNormFreq ----------------------------
(***************************************************************************)
(* entropy.NormalizeFrequencies (v2/entropy/EntropyUtils.go) transcribed   *)
(* operator by operator.  A histogram is given in compact form: the        *)
(* sequence of the counts of the present symbols in increasing symbol      *)
(* order (every count > 0); T is the declared total, S the scale (2^lr).   *)
(*                                                                         *)
(* Impl = "asis": the code at commit 76efab5.  Impl = "fixed": after the   *)
(* fix: commit (the residual error is added when the sum is too low and is *)
(* taken from frequencies above 1 when it is too high).                    *)
(*                                                                         *)
(* TLC integers are 32 bit: the transcription is only evaluated where      *)
(* f * S < 2^31.                                                           *)
(***************************************************************************)
EXTENDS Integers, Sequences, TLC

RECURSIVE SumSeq(_, _)
SumSeq(q, i) == IF i > Len(q) THEN 0 ELSE q[i] + SumSeq(q, i + 1)
Sum(q) == SumSeq(q, 1)

Max2(a, b) == IF a > b THEN a ELSE b
Min2(a, b) == IF a < b THEN a ELSE b

\* proportional scaling with the quantum rule  (l.156-166)
Scaled(f, T, S) == IF f * S <= T THEN 1 ELSE (f * S + (T \div 2)) \div T

\* index of the first strict maximum  (l.174)
RECURSIVE ArgMax(_, _, _)
ArgMax(q, i, best) == IF i > Len(q) THEN best ELSE ArgMax(q, i + 1, IF q[i] > q[best] THEN i ELSE best)

\* one round of the slow path: returns <<freqs, delta, adjustments>>  (l.230-246)
RECURSIVE Round(_, _, _, _, _)
Round(fr, i, delta, inc, adj) ==
    IF i > Len(fr) \/ delta = 0 THEN <<fr, delta, adj>>
    ELSE IF fr[i] <= 2 THEN Round(fr, i + 1, delta, inc, adj)
    ELSE Round([fr EXCEPT ![i] = fr[i] + inc], i + 1, delta - 1, inc, adj + 1)

RECURSIVE Rounds(_, _, _, _)
Rounds(fr, delta, inc, round) ==
    IF ~(round < 6 /\ delta > 0) THEN <<fr, delta>>
    ELSE LET r == Round(fr, 1, delta, inc, 0)
         IN IF r[3] = 0 THEN <<r[1], r[2]>> ELSE Rounds(r[1], r[2], inc, round + 1)

\* (fixed) take `delta` from the frequencies above 1, one unit per symbol per pass
RECURSIVE TakePass(_, _, _, _)
TakePass(fr, i, delta, adj) ==
    IF i > Len(fr) \/ delta = 0 THEN <<fr, delta, adj>>
    ELSE IF fr[i] <= 1 THEN TakePass(fr, i + 1, delta, adj)
    ELSE TakePass([fr EXCEPT ![i] = fr[i] - 1], i + 1, delta - 1, adj + 1)

RECURSIVE TakeAll(_, _)
TakeAll(fr, delta) ==
    IF delta = 0 THEN fr
    ELSE LET r == TakePass(fr, 1, delta, 0)
         IN IF r[3] = 0 THEN r[1] ELSE TakeAll(r[1], r[2])

\* the last statement of the function  (l.256)
Residual(Impl, fr, im, delta, inc) ==
    IF Impl = "asis" THEN [fr EXCEPT ![im] = Max2(fr[im] - delta, 1)]
    ELSE IF delta = 0 THEN fr
    ELSE IF inc > 0 THEN [fr EXCEPT ![im] = fr[im] + delta]
    ELSE LET d == Min2(delta, fr[im] - 1)
         IN TakeAll([fr EXCEPT ![im] = fr[im] - d], delta - d)

\* the loop stops at the first symbol where the running sum of the counts reaches T  (l.178): Used(F, T) is the
\* number of present symbols it has seen by then
RECURSIVE UsedFrom(_, _, _, _)
UsedFrom(F, T, i, acc) == IF i > Len(F) THEN Len(F)
                          ELSE IF acc + F[i] >= T THEN i ELSE UsedFrom(F, T, i + 1, acc + F[i])
Used(F, T) == UsedFrom(F, T, 1, 0)

Normalize(Impl, F, T, S) ==
    IF T = S THEN F                                                           \* shortcut (l.138)
    ELSE LET n == Used(F, T)
             sc == [i \in 1..n |-> Scaled(F[i], T, S)]
             sum == Sum(sc)
             im == ArgMax(sc, 1, 1)
         IN IF n = 1 THEN <<S>>                                               \* l.188
            ELSE IF sum = S THEN sc                                           \* l.193
            ELSE LET delta == sum - S
                     thr == sc[im] \div 16
                     absd == IF delta < 0 THEN 0 - delta ELSE delta
                 IN IF absd <= thr THEN [sc EXCEPT ![im] = sc[im] - delta]    \* fast path (l.208)
                    ELSE LET inc == IF delta < 0 THEN 1 ELSE -1
                             d0 == IF delta < 0 THEN 0 - (delta + thr) ELSE delta - thr
                             f0 == [sc EXCEPT ![im] = IF delta < 0 THEN sc[im] + thr ELSE sc[im] - thr]
                             rr == Rounds(f0, d0, inc, 1)
                         IN Residual(Impl, rr[1], im, rr[2], inc)

\* C16: the result is a valid table for the histogram
ValidTable(F, S, out) == /\ Len(out) = Len(F)                     \* every present symbol is kept, in order
                         /\ \A i \in 1..Len(out) : out[i] >= 1    \* ... with a non-zero frequency
                         /\ Sum(out) = S                          \* the entries sum exactly to the scale

RECURSIVE Pow2(_)
Pow2(n) == IF n = 0 THEN 1 ELSE 2 * Pow2(n - 1)

(***************************************************************************)
(* Model checking: every state is one histogram; there is no behaviour.    *)
(* Family A: r symbols of count 1 followed by d symbols of counts          *)
(* big, big+1, ...  Family B: all sequences of length 1..MaxLen over Menu. *)
(* Family C: rounding boundaries (count f, total near 2*f*scale/(2k+1)).   *)
(* Family D: flat and two-level histograms without a dominant symbol: a    *)
(* symbols of count c1 then b symbols of count c2 (c1, c2 in Menu, every   *)
(* a, b a multiple of MaxDom) -- the regime where every scaled frequency   *)
(* is 1 or 2 and the whole residual has to be spread (seed C16c).          *)
(***************************************************************************)
CONSTANTS Impl, MaxRare, MaxDom, Bigs, LRs, MaxLen, Menu, Fam

FamilyA(r, d, big) == [i \in 1..(r + d) |-> IF i <= r THEN 1 ELSE big + (i - 1 - r)]

VARIABLES hist, lr, res

SeqsUpTo(n) == UNION {[1..k -> Menu] : k \in 1..n}

Init == /\ lr \in LRs
        /\ IF Fam = "A"
           THEN \E r \in 0..MaxRare, d \in 1..MaxDom, big \in Bigs :
                   /\ r + d >= 1 /\ r + d <= 256 /\ r + d <= Pow2(lr)
                   /\ r + d * (big + d) < 1000000000 \div Pow2(lr)      \* keeps every product below 2^31 (TLC integers)
                   /\ hist = FamilyA(r, d, big)
           ELSE IF Fam = "C"
           THEN \* rounding boundaries of the quantisation: a symbol of count f in a total where f*scale/total = k + 1/2 (+-1)
                \E f \in 1..MaxDom, k \in 0..3, dl \in {-1, 0, 1}, three \in BOOLEAN :
                   LET T == (2 * f * Pow2(lr)) \div (2 * k + 1) + dl IN
                   /\ T - f - 1 >= 1
                   /\ T < 1000000000 \div Pow2(lr)
                   /\ hist = IF three THEN <<f, 1, T - f - 1>> ELSE <<f, T - f>>
           ELSE IF Fam = "D"
           THEN \E a \in 0..MaxRare, b \in {x \in 0..MaxRare : x % MaxDom = 0}, c1 \in Menu, c2 \in Menu :
                   /\ a + b >= 1 /\ a + b <= 256 /\ a + b <= Pow2(lr)
                   /\ (b > 0 => c1 # c2)
                   /\ (a * c1 + b * c2) < 1000000000 \div Pow2(lr)
                   /\ hist = [i \in 1..(a + b) |-> IF i <= a THEN c1 ELSE c2]
           ELSE /\ hist \in SeqsUpTo(MaxLen)
                /\ Sum(hist) < 1000000000 \div Pow2(lr)
        /\ res = Normalize(Impl, hist, Sum(hist), Pow2(lr))
Next == UNCHANGED <<hist, lr, res>>
Spec == Init /\ [][Next]_<<hist, lr, res>>

Valid == ValidTable(hist, Pow2(lr), res)
=============================================================================
