------------------------------ MODULE KzEvents ------------------------------
(***************************************************************************)
(* Listener events of the compressed streams (v2/io/CompressedStream.go:   *)
(* encodingTask.encode, decodingTask.decode, Reader.processBlock).         *)
(* Beyond the listed properties: the listener interface is public API.     *)
(*                                                                         *)
(* Writer: each task emits BT, AT, BE, AE for its block from its own       *)
(* goroutine; processBlock joins the batch before the next one starts.     *)
(* Reader: each task emits BE, AE, BT; after the join the goroutine that   *)
(* called Read emits AT for every result of the batch in block order.      *)
(* As found, named deliberately: the reader also emits AT with size 0 for  *)
(* the end marker and for the tasks cancelled behind it (DeliverPhantom).  *)
(* The batch size is nondeterministic in 1..J (size hints shrink batches). *)
(***************************************************************************)
EXTENDS KzEventLog, FiniteSets

CONSTANTS N,      \* data blocks
          J,      \* jobs
          Side    \* "w" | "r"

VARIABLES first,  \* first id of the current / next batch
          last,   \* last id of the current batch
          pc,     \* phases emitted so far by each task of the batch
          main,   \* "idle" | "run" | "deliver" | "done"
          d,      \* reader: next result to hand over
          log

vars == <<first, last, pc, main, d, log>>

TaskPhases == IF Side = "w" THEN 4 ELSE 3
\* the reader spawns tasks for ids beyond the data: N+1 finds the end marker, later ones are cancelled; none emits task events
Real(b) == b <= N

Init == first = 1 /\ last = 0 /\ pc = <<>> /\ main = "idle" /\ d = 1 /\ log = <<>>

StartBatch ==
    /\ main = "idle"
    /\ IF Side = "w" THEN first <= N ELSE first <= N + 1
    /\ \E k \in 1..J :
         /\ Side = "w" => first + k - 1 <= N
         /\ last' = first + k - 1
         /\ pc' = [b \in first..(first + k - 1) |-> 0]
    /\ main' = "run"
    /\ UNCHANGED <<first, d, log>>

TaskStep(b) ==
    /\ main = "run" /\ b \in DOMAIN pc /\ Real(b) /\ pc[b] < TaskPhases
    /\ log' = Append(log, [t |-> Canon(Side)[pc[b] + 1], id |-> b])
    /\ pc' = [pc EXCEPT ![b] = @ + 1]
    /\ UNCHANGED <<first, last, main, d>>

Join ==
    /\ main = "run"
    /\ \A b \in DOMAIN pc : Real(b) => pc[b] = TaskPhases
    /\ IF Side = "w"
       THEN main' = "idle" /\ first' = last + 1 /\ d' = d
       ELSE main' = "deliver" /\ d' = first /\ first' = first
    /\ UNCHANGED <<last, pc, log>>

Deliver ==
    /\ main = "deliver" /\ d <= last /\ Real(d)
    /\ log' = Append(log, [t |-> 3, id |-> d])
    /\ d' = d + 1
    /\ UNCHANGED <<first, last, pc, main>>

\* as found: AFTER_TRANSFORM with size 0 for the end marker and the cancelled tasks of the last batch
DeliverPhantom ==
    /\ main = "deliver" /\ d <= last /\ ~Real(d)
    /\ log' = Append(log, [t |-> 3, id |-> d])
    /\ d' = d + 1
    /\ UNCHANGED <<first, last, pc, main>>

EndBatch ==
    /\ main = "deliver" /\ d > last
    /\ first' = last + 1
    /\ main' = IF last > N THEN "done" ELSE "idle"
    /\ UNCHANGED <<last, pc, d, log>>

WriterDone == Side = "w" /\ main = "idle" /\ first > N /\ main' = "done" /\ UNCHANGED <<first, last, pc, d, log>>

Terminated == main = "done" /\ UNCHANGED vars

Next == StartBatch \/ (\E b \in 1..(N + J + 1) : TaskStep(b)) \/ Join \/ Deliver \/ DeliverPhantom \/ EndBatch \/ WriterDone \/ Terminated

Spec == Init /\ [][Next]_vars /\ WF_vars(Next)

OrderOK    == PerBlockOrder(log, Side, 1..N)
BarrierOK  == Barrier(log, Side, J)
DeliveryOK == Side = "r" => DeliveryOrdered(log, 1)
CompleteOK == main = "done" => Complete(log, Side, 1..N)
\* phantom deliveries only beyond the data and at most J of them
PhantomOK  == \A i \in 1..Len(log) : log[i].id > N => (Side = "r" /\ log[i].t = 3 /\ log[i].id <= N + J)
Finishes   == <>(main = "done")
=============================================================================
