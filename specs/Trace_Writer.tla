--------------------------- MODULE Trace_Writer ---------------------------
(***************************************************************************)
(* Trace specification for executions of the real Writer (record mode).    *)
(* Every constraint is a consequence of a listed property (C01, C04, C06,  *)
(* C07, C08, C17).  Total: every event is consumed, each run is judged on  *)
(* its own, the first false predicate of a run is printed as               *)
(* <<"VIOLATION_AT", line, predicate>>.                                    *)
(*                                                                         *)
(* Events:                                                                 *)
(*  Reset    run, healthy (TRUE when no fault is injected)                 *)
(*  Write    len, n, err ("none"|"err"|"closed"), panic                    *)
(*  Close    err, panic, sinkLen, sinkClosed, owned (the Writer owns the   *)
(*           sink), acc (digest of the bytes accepted by successful Writes)*)
(*           dec (digest of what the sink content decodes to, "fail" when  *)
(*           it does not decode, "na" when Close failed)                   *)
(*  GetWritten v, sinkLen                                                  *)
(*  S_WRITE  n, ok     S_CLOSE ok       (calls on the underlying sink)     *)
(*  Hang     op (the call did not return within the watchdog delay)        *)
(*  W_SPAWN  first, n  W_JOIN                                              *)
(*  E_START  id, got, want  (digest of the data handed to task id, digest  *)
(*           of the id-th block-size slice of the data written so far)     *)
(*  E_SEEN   id, tok   E_REL id   E_FIN0 id, err   E_FIN1 id, counter      *)
(*  Out      key, dig  (digest of the complete sink content for the        *)
(*           parameters+data identified by key)                            *)
(***************************************************************************)
EXTENDS Integers, Sequences, FiniteSets, TLC, Json, IOUtils

Trace == ndJsonDeserialize(IOEnv.TRACE_FILE)

VARIABLES l, s,
          outs   \* key -> digest of the first complete output seen for that key (global to the trace)

vars == <<l, s, outs>>

Fresh == [healthy |-> TRUE,
          closedOK |-> FALSE,     \* Close returned nil
          faultPending |-> FALSE, \* a sink call failed and no API call has reported an error since
          anyFault |-> FALSE,     \* some sink call failed in this run
          holder |-> 0, lastTok |-> 0, open |-> {}, callErr |-> FALSE,
          lastWritten |-> 0,      \* last value of GetWritten
          sinkAtClose |-> -1,     \* sink length when Close first returned nil
          bad |-> "none"]

Init == l = 1 /\ s = Fresh /\ outs = <<>>

Check(st, cond, name) == IF st.bad = "none" /\ ~cond THEN [st EXCEPT !.bad = name] ELSE st

RECURSIVE CheckAll(_, _)
CheckAll(st, cs) == IF cs = <<>> THEN st ELSE CheckAll(Check(st, cs[1][1], cs[1][2]), Tail(cs))

Reset(e) == Check([Fresh EXCEPT !.healthy = e.healthy], s.open = {}, "C07_task_outlives_run")

WriteEv(e) ==
    CheckAll([s EXCEPT !.faultPending = (s.faultPending /\ e.err = "none"), !.callErr = FALSE], <<
        \* C08: no failure escapes as a panic
        <<~e.panic, "C08_panic">>,
        \* C01/C17: a successful Write takes the whole buffer
        <<~(e.err = "none" /\ e.n # e.len), "C17_short_write_without_error">>,
        <<e.n >= 0 /\ e.n <= e.len, "C17_count">>,
        \* C17: Write after a successful Close fails, without side effects
        <<~(s.closedOK /\ (e.err = "none" \/ e.n > 0)), "C17_write_after_close">>,
        \* C01: on a healthy sink writing never fails
        <<~(s.healthy /\ ~s.closedOK /\ e.err # "none"), "C01_write_fails_on_healthy_sink">>,
        \* C07: a failed task is reported by the enclosing call
        <<~(s.callErr /\ e.err = "none"), "C07_failure_not_reported">> >>)

CloseEv(e) ==
    CheckAll([s EXCEPT !.closedOK = (s.closedOK \/ e.err = "none"),
                       !.faultPending = (s.faultPending /\ e.err = "none"),
                       !.callErr = FALSE,
                       !.sinkAtClose = IF e.err = "none" /\ s.sinkAtClose = -1 THEN e.sinkLen ELSE s.sinkAtClose], <<
        <<~e.panic, "C08_panic">>,
        \* C08: a sink failure is never swallowed: it is reported before Close reports success
        <<~(e.err = "none" /\ s.faultPending), "C08_swallowed_failure">>,
        \* C08/C01: Close nil => the sink received a stream that decodes to exactly the accepted bytes
        <<~(e.err = "none" /\ e.dec # e.acc), "W_CloseOK">>,
        \* C08: ... and the sink was closed when the Writer owns it
        <<~(e.err = "none" /\ e.owned /\ ~e.sinkClosed), "C08_sink_not_closed">>,
        \* C01: on a healthy sink Close succeeds
        <<~(s.healthy /\ e.err # "none"), "C01_close_fails_on_healthy_sink">>,
        \* C17: Close is idempotent: once it succeeded it keeps succeeding and the sink does not change
        <<~(s.closedOK /\ (e.err # "none" \/ e.sinkLen # s.sinkAtClose)), "C17_close_not_idempotent">>,
        <<~(s.callErr /\ e.err = "none"), "C07_failure_not_reported">> >>)

GetWrittenEv(e) ==
    CheckAll([s EXCEPT !.lastWritten = e.v], <<
        <<e.v >= s.lastWritten, "C17_counter_not_monotone">>,
        \* C17: after a successful Close GetWritten equals the number of bytes the sink received
        <<~(s.closedOK /\ ~s.anyFault /\ e.v # e.sinkLen), "C17_getwritten_vs_sink">>,
        \* ... also when Close succeeded only at a later attempt (a sink that took part of a buffer makes the stream fail for
        \* good, so a successful Close after faults means every byte reached the sink exactly once)
        <<~(s.closedOK /\ s.anyFault /\ e.v # e.sinkLen), "C17_getwritten_vs_sink_after_retry">> >>)

SinkCall(e) == [s EXCEPT !.faultPending = (s.faultPending \/ ~e.ok), !.anyFault = (s.anyFault \/ ~e.ok)]

\* (the Writer starts at most e.n tasks: those that have data; they announce themselves with E_START)
Spawn(e) == Check([s EXCEPT !.open = {}], s.open = {} /\ s.holder = 0, "C07_batch_overlap")

JoinEv(e) == Check(s, s.open = {} /\ s.holder = 0, "C07_join_before_tasks_end")

\* C01/C04/C06: task id encodes exactly the id-th block-size slice of the data, whatever the Write partition
Start(e) == Check([s EXCEPT !.open = s.open \cup {e.id}], e.got = e.want, "W_Partition")

Seen(e) ==
    IF e.tok = -1 THEN s
    ELSE CheckAll([s EXCEPT !.holder = e.id, !.lastTok = e.id], <<
            <<s.holder = 0, "C07_mutex">>,
            <<e.id = s.lastTok + 1, "C07_order">>,
            <<e.tok = e.id - 1, "C07_token">> >>)

Rel(e) == [s EXCEPT !.holder = IF s.holder = e.id THEN 0 ELSE s.holder]

Fin0(e) == [s EXCEPT !.holder = IF s.holder = e.id THEN 0 ELSE s.holder, !.callErr = (s.callErr \/ e.err # 0)]

Fin1(e) == Check([s EXCEPT !.open = s.open \ {e.id}], e.id \in s.open, "C07_unknown_task")

\* C04: the produced stream is a function of data and parameters.  outs is a sequence of <<key, digest>>
Known(k) == \E i \in 1..Len(outs) : outs[i][1] = k
DigOf(k) == LET i == CHOOSE i \in 1..Len(outs) : outs[i][1] = k IN outs[i][2]
Out(e) == IF Known(e.key) THEN Check(s, DigOf(e.key) = e.dig, "C04_output_differs") ELSE s

Next ==
    /\ l <= Len(Trace)
    /\ l' = l + 1
    /\ LET e == Trace[l] IN
         /\ s' = CASE e.ev = "Reset"      -> Reset(e)
                   [] e.ev = "Write"      -> WriteEv(e)
                   [] e.ev = "Close"      -> CloseEv(e)
                   [] e.ev = "GetWritten" -> GetWrittenEv(e)
                   [] e.ev = "S_WRITE"    -> SinkCall(e)
                   [] e.ev = "S_CLOSE"    -> SinkCall(e)
                   [] e.ev = "W_SPAWN"    -> Spawn(e)
                   [] e.ev = "W_JOIN"     -> JoinEv(e)
                   [] e.ev = "E_START"    -> Start(e)
                   [] e.ev = "E_SEEN"     -> Seen(e)
                   [] e.ev = "E_REL"      -> Rel(e)
                   [] e.ev = "E_FIN0"     -> Fin0(e)
                   [] e.ev = "E_FIN1"     -> Fin1(e)
                   [] e.ev = "Hang"     -> Check(s, FALSE, "C07_call_never_returns")
                   [] e.ev = "Out"        -> Out(e)
                   [] OTHER               -> s
         /\ outs' = IF e.ev = "Out" /\ ~Known(e.key) THEN Append(outs, <<e.key, e.dig>>) ELSE outs
    /\ (s'.bad # "none" /\ s'.bad # s.bad) => PrintT(<<"VIOLATION_AT", l, s'.bad>>)
    \* the comparison of complete streams is reported even when an earlier predicate of the same run (which another property
    \* may own) has already fired
    /\ LET e == Trace[l] IN (e.ev = "Out" /\ s.bad # "none" /\ Known(e.key) /\ DigOf(e.key) # e.dig)
                              => PrintT(<<"VIOLATION_AT", l, "C04_output_differs">>)

Spec == Init /\ [][Next]_vars

NoViolation == s.bad = "none"
Consumed == TLCGet("stats").diameter - 1 = Len(Trace)
=============================================================================
