------------------------------ MODULE KzFormat ------------------------------
(***************************************************************************)
(* The container of bitstream format 6 as data (README "Bitstream format", *)
(* writeHeader / encode in v2/io/CompressedStream.go).  All fields are big *)
(* endian bit fields.                                                      *)
(*                                                                         *)
(*  header:  magic 32 | version 4 | checksum size 2 | entropy 5 |          *)
(*           transforms 8 x 6 | block size >> 4 : 28 | size mask 2 |       *)
(*           original size 16 x mask | padding 15 | header checksum 24     *)
(*  block:   length width - 3 : 5 | length in bits : width | payload       *)
(*  payload: mode 8 | [skip flags 8] | pre-entropy length 8 x dataSize |   *)
(*           [checksum 32/64] | entropy coded data                         *)
(*  end:     a block of length width 3 and length 0 (8 zero bits)          *)
(*                                                                         *)
(* The harness parser (harness/kzfmt) is written from this module; the     *)
(* 32-bit products of the header checksum are computed by the harness      *)
(* (TLC integers are 32 bit), TLC checks the structure.                    *)
(***************************************************************************)
EXTENDS Integers, Sequences, TLC

K == INSTANCE KzNames WITH MaxChain <- 0, Names <- {}, chain <- <<>>

Magic == 1262571098            \* 0x4B414E5A "KANZ"
Version == 6
CopyMask == 128                \* mode bit: the block is stored (no transform, no entropy coding)
TransformsMask == 16           \* mode bit: more than 4 transforms, a skip flag byte follows
SmallBlock == 15               \* blocks of at most 15 bytes are always stored

CkCode(bits) == CASE bits = 0 -> 0 [] bits = 32 -> 1 [] bits = 64 -> 2
\* size mask: 0 = not provided (or >= 2^48), 1: < 2^16, 2: < 2^32, 3: < 2^48   (sizes are given in units that fit TLC)
SizeMask(hint) == IF hint <= 0 THEN 0 ELSE IF hint < 65536 THEN 1 ELSE 2
HeaderBits(mask) == 32 + 4 + 2 + 5 + 48 + 28 + 2 + 16 * mask + 15 + 24

RECURSIVE Log2(_)
Log2(n) == IF n <= 1 THEN 0 ELSE 1 + Log2(n \div 2)
\* width of the length field of a frame of `bits` bits
LenWidth(bits) == IF bits < 8 THEN 3 ELSE Log2(bits \div 8) + 4
\* number of bytes of the pre-entropy length field
DataSize(preLen) == IF preLen < 256 THEN 1 ELSE (Log2(preLen) \div 8) + 1

ModeDataSize(mode) == ((mode \div 32) % 4) + 1
ModeIsCopy(mode) == (mode \div 128) % 2 = 1
ModeHasSkipByte(mode) == ~ModeIsCopy(mode) /\ (mode \div 16) % 2 = 1
=============================================================================
